//go:build conform

package checks

// Two REAL engines (quickfix.Initiator + quickfix.Acceptor, all their goroutines, real EventTimers) inside a
// testing/synctest bubble, driven by the action list of a path explored on the model pair (internal/sessmc.Pair):
// every frame crosses the in-memory network when the path says so. Judged by the property itself (safety at
// every step, convergence after the link stays up for heartbeat intervals of virtual time) and compared frame by
// frame with the model's trace. Run by C05 as:  e2e.test -test.run TestE2EReplay  (E2E_IN / E2E_OUT)

import (
	"encoding/json"
	"fmt"
	"os"
	"runtime"
	"strings"
	"sync"
	"sync/atomic"
	"testing"
	"testing/synctest"
	"time"

	"verif/internal/core"
	"verif/internal/e2e"
)

// e2eHung: a bubble has been abandoned with goroutines of the library still in it; its ticker keeps its virtual clock
// racing, so the run is wound up (the remaining paths are reported as not run).
var e2eHung int32

func deliverLines(tr []string) (out []string) {
	for _, x := range tr {
		if strings.HasPrefix(x, "deliver") {
			out = append(out, x)
		}
	}
	return
}

// e2eRun replays one model path on the real pair. rule=="" means the property held.
func e2eRun(t *testing.T, it e2eItem, tag string) (rule, what string, trace []string, matched bool, frames int, diverge string, err error) {
	scratch, cleanup := core.Scratch("e2e")
	defer cleanup()
	mdir, rdir := scratch+"/model", ""
	os.MkdirAll(mdir, 0o755)
	p, ok, err := c05Build(it.File, mdir, it.Path, it.Budget)
	if err != nil {
		return "", "", nil, false, 0, "", err
	}
	actions := append([]string{}, p.Trace...)
	mA, mI := append([]string{}, p.A.Delivered...), append([]string{}, p.I.Delivered...)
	p.Close()
	if !ok {
		return "", "", nil, false, 0, "", fmt.Errorf("path not enabled on the model")
	}
	if it.File {
		rdir = scratch + "/real"
		os.MkdirAll(rdir, 0o755)
	}
	bs := it.Budget.Begin
	if bs == "" {
		bs = "FIX.4.2"
	}
	defer func() {
		// the bubble ends with goroutines of the library blocked for ever, or cannot go on because every goroutine
		// is blocked (an engine that no longer serves its connection, a Stop() that never returns)
		if r := recover(); r != nil {
			// (what is left of this bubble keeps running on its virtual clock: no further path is started, see e2eHung)
			atomic.StoreInt32(&e2eHung, 1)
			rule, what = "engine-goroutine-blocked-for-ever", fmt.Sprint(r)
			if trace == nil {
				trace = actions
			}
		}
	}()
	synctest.Test(t, func(t *testing.T) {
		s, e := e2e.New(e2e.Ctl{Barrier: synctest.Wait, Sleep: time.Sleep}, bs, rdir, tag)
		if e != nil {
			err = e
			return
		}
		defer func() {
			s.Close()
			if os.Getenv("E2E_DEBUG") != "" {
				buf := make([]byte, 1<<20)
				fmt.Fprintf(os.Stderr, "GOROUTINES AFTER CLOSE:\n%s\n", buf[:runtime.Stack(buf, true)])
			}
		}()
		for _, a := range actions {
			switch {
			case a == "connect":
				s.Connect()
			case strings.HasPrefix(a, "deliver"):
				toA := strings.HasSuffix(a, "toA=true")
				if !s.ForwardOne(toA) && diverge == "" {
					diverge = fmt.Sprintf("model action %q: the real network has no frame in that direction", a)
				}
			case strings.HasPrefix(a, "send I-"):
				s.Send(true)
			case strings.HasPrefix(a, "send A-"):
				s.Send(false)
			case a == "cut":
				if it.Mode == 1 {
					s.CutWritesFirst()
				} else {
					s.Cut()
				}
			case a == "restart I=true":
				if e := s.Restart(true); e != nil {
					err = e
					return
				}
			case a == "restart I=false":
				if e := s.Restart(false); e != nil {
					err = e
					return
				}
			}
			if it.Oracle == "C08" {
				rule, what = s.JudgeLifecycle(false)
			} else {
				rule, what = s.Safety()
			}
			if rule != "" {
				trace = s.Trace
				return
			}
		}
		if it.Oracle == "C08" {
			// the last connection ends; once everything has come to rest nobody is inside a logged-on period
			s.Cut()
			synctest.Wait()
			rule, what = s.JudgeLifecycle(true)
			trace = s.Trace
			frames = len(deliverLines(s.Trace))
			matched = rule == ""
			return
		}
		// conformance: same frames in the same order, same deliveries
		rA, rI := s.Delivered()
		md, rd := deliverLines(actions), deliverLines(s.Trace)
		if diverge == "" {
			switch {
			case strings.Join(md, "\n") != strings.Join(rd, "\n"):
				for i := 0; i < len(md) || i < len(rd); i++ {
					x, y := "", ""
					if i < len(md) {
						x = md[i]
					}
					if i < len(rd) {
						y = rd[i]
					}
					if x != y {
						diverge = fmt.Sprintf("frame %d: model %q, real %q", i, x, y)
						break
					}
				}
			case strings.Join(mA, ",") != strings.Join(rA, ",") || strings.Join(mI, ",") != strings.Join(rI, ","):
				diverge = fmt.Sprintf("deliveries: model %v/%v, real %v/%v", mA, mI, rA, rI)
			}
		}
		if it.Mode == 1 {
			diverge = "not comparable: the cuts happen with the writes failing first"
		}
		for _, a := range actions {
			if a == "late-flush" {
				// the model let a frame overtake a pending flush; the real loop, fed one frame at a time, always
				// flushes first: this path is judged by the property only
				diverge = "not comparable: late flush"
			}
		}
		matched = diverge == ""
		rule, what = s.Converge()
		trace = s.Trace
		frames = len(deliverLines(s.Trace))
	})
	return
}

func TestE2EReplay(t *testing.T) {
	in, outPath := os.Getenv("E2E_IN"), os.Getenv("E2E_OUT")
	if in == "" {
		t.Skip("E2E_IN not set")
	}
	b, err := os.ReadFile(in)
	if err != nil {
		t.Fatal(err)
	}
	var items []e2eItem
	if err := json.Unmarshal(b, &items); err != nil {
		t.Fatal(err)
	}
	var res e2eOut
	var mu sync.Mutex
	var idx int64 = -1
	var deadline time.Time
	if d, err := time.ParseDuration(os.Getenv("E2E_BUDGET")); err == nil && d > 0 {
		deadline = time.Now().Add(d)
	}
	var wg sync.WaitGroup
	nw := runtime.NumCPU()
	cur := make([]int64, nw)   // item a worker is on (-1: none)
	since := make([]int64, nw) // unix nanoseconds when it started it
	for i := range cur {
		cur[i] = -1
	}
	// hang watchdog (real time, outside the bubbles): a path takes milliseconds; one that has not finished after a
	// minute sits in a bubble whose engines no longer make progress while its ticker keeps the virtual clock racing
	// (the bubble can be neither left nor killed): report it, write the results and end the process
	go func() {
		for {
			time.Sleep(time.Second)
			for w := 0; w < nw; w++ {
				i, t0 := atomic.LoadInt64(&cur[w]), atomic.LoadInt64(&since[w])
				if i >= 0 && t0 > 0 && time.Since(time.Unix(0, t0)) > 30*time.Second {
					mu.Lock()
					res.Violations = append(res.Violations, e2eViolation{items[i], "engine-hung", "the real pair made no further progress on this path (the run did not finish within 30 s of real time; virtual time is free): an engine goroutine is blocked for ever", nil})
					res.NotRun += len(items) - res.Replayed - res.NotRun - 1
					ob, _ := json.Marshal(res)
					if outPath != "" {
						os.WriteFile(outPath, ob, 0o644)
					}
					os.Exit(0)
				}
			}
		}
	}()
	for wk := 0; wk < nw; wk++ {
		wg.Add(1)
		wk := wk
		go func() {
			defer wg.Done()
			for {
				i := int(atomic.AddInt64(&idx, 1))
				if i >= len(items) {
					return
				}
				mu.Lock()
				stop := len(res.Violations) >= 25 || (!deadline.IsZero() && time.Now().After(deadline)) || atomic.LoadInt32(&e2eHung) != 0
				if stop {
					res.NotRun++
				}
				mu.Unlock()
				if stop {
					continue
				}
				atomic.StoreInt64(&since[wk], time.Now().UnixNano())
				atomic.StoreInt64(&cur[wk], int64(i))
				rule, what, trace, matched, frames, diverge, err := e2eRun(t, items[i], fmt.Sprintf("%d.%d", os.Getpid(), i))
				atomic.StoreInt64(&cur[wk], -1)
				mu.Lock()
				res.Replayed++
				res.Frames += frames
				switch {
				case err != nil:
					if len(res.Errors) < 10 {
						res.Errors = append(res.Errors, err.Error())
					}
				case rule != "":
					if len(res.Violations) < 200 {
						res.Violations = append(res.Violations, e2eViolation{items[i], rule, what, trace})
					}
				case matched:
					res.Matched++
				case strings.HasPrefix(diverge, "not comparable"):
					res.NotComp++
				default:
					res.DivergedN++
					if len(res.Diverged) < 20 {
						res.Diverged = append(res.Diverged, fmt.Sprintf("%s | %s", c05Describe(items[i].Path), diverge))
					}
				}
				mu.Unlock()
			}
		}()
	}
	wg.Wait()
	ob, _ := json.Marshal(res)
	if outPath != "" {
		os.WriteFile(outPath, ob, 0o644)
	}
	t.Logf("e2e: replayed=%d matched=%d violations=%d diverged(sample)=%d errors=%d", res.Replayed, res.Matched, len(res.Violations), len(res.Diverged), len(res.Errors))
}
