//go:build conform

package checks

// Conformance replay: explored traces are re-executed through the REAL session.run() goroutine (real
// channels, real select loop, real EventTimers and ticker) inside a testing/synctest bubble (go1.26.8),
// and the ordered observation log and the final canonical state must equal those of the synchronous
// driver the explorers use. Run by the checks as:
//   go1.26.8 test -tags "verif conform" -run TestConform -count=1 ./checks   (CONFORM_IN / CONFORM_OUT)

import (
	"encoding/json"
	"fmt"
	"os"
	"strings"
	"testing"
	"testing/synctest"
	"time"

	"github.com/quickfixgo/quickfix"

	"verif/internal/sessmc"
)

type conformItem struct {
	Variant string
	Cfg     sessmc.Config
	Names   []string
}

type conformOut struct {
	Validated  int      `json:"validated"`
	Skipped    int      `json:"skipped"`
	Events     int      `json:"events_replayed"`
	Mismatches []string `json:"mismatches"`
}

var errNotCanonical = fmt.Errorf("not canonical")

func obsSig(o sessmc.Obs) string {
	return fmt.Sprintf("%s|%s|%d|%v|%s|%d|%d>%d|%d>%d|%v|%d-%d", o.K, o.Type, o.Seq, o.PossDup, o.Op, o.Arg, o.T0, o.T1, o.S0, o.S1, o.D, o.Begin, o.End)
}

func runTrace(t *testing.T, it conformItem, loop bool) (log []string, key string, err error) {
	def := variantDefs[it.Variant]
	if def == nil {
		return nil, "", fmt.Errorf("unknown variant %s", it.Variant)
	}
	sp := def(it.Cfg)
	w, err := sessmc.NewWorld(it.Cfg)
	if err != nil {
		return nil, "", err
	}
	defer w.Close()
	if loop {
		w.StartLoop(&sessmc.LoopCtl{Barrier: synctest.Wait, Sleep: time.Sleep})
	}
	byName := map[string]*sessmc.Event{}
	for _, e := range sp.alphabet {
		byName[e.Name] = e
	}
	for _, e := range sp.prefix {
		byName["prefix:"+e.Name] = e
	}
	for _, n := range it.Names {
		e := byName[n]
		if e == nil {
			return nil, "", fmt.Errorf("unknown event %q", n)
		}
		if it.Cfg.Timed {
			// with real timers only the canonical timing is reproducible: a due timer fires before anything else,
			// and two timers due at the same instant fire in an unspecified order
			dueS, dueP := w.ArmS && w.DeadS <= w.VNow, w.ArmP && w.DeadP <= w.VNow
			if (dueS && dueP) || ((dueS || dueP) && e.K != "to") {
				return nil, "", errNotCanonical
			}
			// the trace was explored with the flush as an event of its own; replayed with the flush served at once a
			// transmission may have re-armed the timer, so that the timer event of the trace is not due here
			if e.K == "to" && !((e.To == quickfix.VerifNeedHeartbeat && dueS) || (e.To == quickfix.VerifPeerTimeout && dueP)) {
				return nil, "", errNotCanonical
			}
		}
		if e.K == "flush" {
			continue // the real loop serves the flush token on its own, at once: compared against the eager-flush schedule
		}
		for _, o := range w.Apply(e) {
			log = append(log, obsSig(o))
		}
		for !loop && w.VS.Snapshot().MsgEvent > 0 && w.Enabled(sessmc.EvFlush()) {
			for _, o := range w.Apply(sessmc.EvFlush()) {
				log = append(log, obsSig(o))
			}
		}
	}
	if it.Cfg.Timed && ((w.ArmS && w.DeadS <= w.VNow) || (w.ArmP && w.DeadP <= w.VNow)) {
		return nil, "", errNotCanonical // the trace stops at an instant where a real timer would already have fired
	}
	key = w.RelKey()
	if loop {
		// let the loop goroutine finish: a stop request ends run()
		go w.VS.StopAsync()
		synctest.Wait()
		if !w.VS.Snapshot().Stopped {
			// still connected: closing the inbound channel completes the stop
			w.Apply(sessmc.EvDisconnect())
		}
	}
	return
}

// conformable: restarts replace the session object and are not replayed in loop mode.
func conformable(names []string) bool {
	for _, n := range names {
		if strings.Contains(n, "restart") || strings.Contains(n, "reset-time") || strings.Contains(n, "clock-tick") || strings.Contains(n, "write") {
			return false
		}
	}
	return true
}

func TestConform(t *testing.T) {
	in, outPath := os.Getenv("CONFORM_IN"), os.Getenv("CONFORM_OUT")
	if in == "" {
		t.Skip("CONFORM_IN not set")
	}
	b, err := os.ReadFile(in)
	if err != nil {
		t.Fatal(err)
	}
	var items []conformItem
	if err := json.Unmarshal(b, &items); err != nil {
		t.Fatal(err)
	}
	var res conformOut
	for _, it := range items {
		if !conformable(it.Names) {
			res.Skipped++
			continue
		}
		syncLog, syncKey, err := runTrace(t, it, false)
		if err == errNotCanonical {
			res.Skipped++
			continue
		}
		if err != nil {
			res.Mismatches = append(res.Mismatches, err.Error())
			continue
		}
		var loopLog []string
		var loopKey string
		var lerr error
		synctest.Test(t, func(t *testing.T) {
			loopLog, loopKey, lerr = runTrace(t, it, true)
		})
		if lerr != nil {
			res.Mismatches = append(res.Mismatches, lerr.Error())
			continue
		}
		// transmitted bytes are collected when the event is over, callbacks as they happen: the two orders are
		// compared separately (their interleaving differs when the loop flushes inside the same barrier)
		split := func(l []string) (cb, out []string) {
			for _, x := range l {
				if strings.HasPrefix(x, "out|") || strings.HasPrefix(x, "closed|") {
					out = append(out, x)
				} else {
					cb = append(cb, x)
				}
			}
			return
		}
		sc, so := split(syncLog)
		lc, lo := split(loopLog)
		syncLog, loopLog = append(sc, so...), append(lc, lo...)
		if strings.Join(syncLog, "\n") != strings.Join(loopLog, "\n") || syncKey != loopKey {
			d := fmt.Sprintf("%s %s %v: ", it.Variant, it.Cfg, it.Names)
			for i := 0; i < len(syncLog) || i < len(loopLog); i++ {
				a, b := "", ""
				if i < len(syncLog) {
					a = syncLog[i]
				}
				if i < len(loopLog) {
					b = loopLog[i]
				}
				if a != b {
					d += fmt.Sprintf("first difference at observation %d: driver %q, run loop %q", i, a, b)
					break
				}
			}
			if syncKey != loopKey {
				d += fmt.Sprintf(" | final state: driver %q, run loop %q", syncKey, loopKey)
			}
			res.Mismatches = append(res.Mismatches, d)
			if os.Getenv("CONFORM_DEBUG") != "" {
				t.Logf("DRIVER:\n%s\nLOOP:\n%s", strings.Join(syncLog, "\n"), strings.Join(loopLog, "\n"))
			}
			continue
		}
		res.Validated++
		res.Events += len(it.Names)
	}
	ob, _ := json.Marshal(res)
	if outPath != "" {
		os.WriteFile(outPath, ob, 0o644)
	}
	t.Logf("conformance: %s", ob)
}
