package checks

import (
	"encoding/json"
	"fmt"
	"os"
	"os/exec"
	"path/filepath"
	"strings"
	"sync"
	"time"

	"verif/internal/core"
)

// ---- C05 on the real engines: every explored model path is replayed on a real Initiator + Acceptor pair inside a
// testing/synctest bubble (checks/e2e_test.go, internal/e2e; built with go1.26.8, tag conform) ----

type e2eItem struct {
	File   bool      `json:"file_store"`
	Path   []uint8   `json:"path"`
	Budget c05Budget `json:"budget"`
	Mode   int       `json:"mode,omitempty"`   // 1: every cut of the path happens with the writes failing first
	Oracle string    `json:"oracle,omitempty"` // "" the C05 rules; "C08": the connection / logged-on-period rules
}

type e2eViolation struct {
	Item  e2eItem  `json:"item"`
	Rule  string   `json:"rule"`
	What  string   `json:"what"`
	Trace []string `json:"trace"`
}

type e2eOut struct {
	Replayed   int            `json:"replayed"`
	Matched    int            `json:"matched"` // frame-by-frame equal to the model's trace, same deliveries
	Frames     int            `json:"frames_forwarded"`
	Diverged   []string       `json:"diverged"`
	DivergedN  int            `json:"diverged_n"`
	NotRun     int            `json:"not_run"`        // stopped early: 25 violations found, or the time budget of the replay was used up
	NotComp    int            `json:"not_comparable"` // the model path uses a schedule the real loop cannot be made to take
	Violations []e2eViolation `json:"violations"`
	Errors     []string       `json:"errors"`
}

var (
	e2eMu      sync.Mutex
	e2eBinOnce sync.Once
	e2eBinErr  error
)

func e2eBin() string { return filepath.Join(core.VerifDir, "bin", "e2e.test") }

// e2eBuildBin compiles the bubble test binary against the current tree (once per process).
func e2eBuildBin() error {
	e2eBinOnce.Do(func() {
		cmd := exec.Command("go1.26.8", "test", "-c", "-o", e2eBin(), "-tags", "verif conform", "-vet=off", "./checks")
		cmd.Dir = core.VerifDir
		cmd.Env = append(os.Environ(), "GOFLAGS=-mod=mod", "GOPROXY=off", "GOSUMDB=off", "GOTOOLCHAIN=local", "CGO_ENABLED=1")
		if out, err := cmd.CombinedOutput(); err != nil {
			e2eBinErr = fmt.Errorf("building the real-engine replay binary: %v: %s", err, lastLines(string(out), 5))
		}
	})
	return e2eBinErr
}

// e2eExec runs the bubble binary over items.
func e2eExec(items []e2eItem, budget time.Duration) (*e2eOut, error) {
	if err := e2eBuildBin(); err != nil {
		return nil, err
	}
	dir, cleanup := core.Scratch("e2eio")
	defer cleanup()
	in, out := filepath.Join(dir, "in.json"), filepath.Join(dir, "out.json")
	b, _ := json.Marshal(items)
	if err := os.WriteFile(in, b, 0o644); err != nil {
		return nil, err
	}
	cmd := exec.Command(e2eBin(), "-test.run", "^TestE2EReplay$", "-test.timeout", "60m")
	cmd.Dir = filepath.Join(core.VerifDir, "checks")
	cmd.Env = append(os.Environ(), "E2E_IN="+in, "E2E_OUT="+out, "E2E_BUDGET="+budget.String())
	log, err := cmd.CombinedOutput()
	ob, rerr := os.ReadFile(out)
	if rerr != nil {
		os.MkdirAll(filepath.Join(core.VerifDir, ".scratch"), 0o755)
		os.WriteFile(filepath.Join(core.VerifDir, ".scratch", "e2e_failed.log"), log, 0o644)
		os.WriteFile(filepath.Join(core.VerifDir, ".scratch", "e2e_failed_in.json"), b, 0o644)
		return nil, fmt.Errorf("real-engine replay did not finish: %v: %s", err, lastLines(string(log), 6))
	}
	var res e2eOut
	if err := json.Unmarshal(ob, &res); err != nil {
		return nil, err
	}
	return &res, nil
}

func init() {
	core.RegisterReplayThreads("C05/e2e", 1, func(data json.RawMessage) (bool, string, error) {
		var it e2eItem
		if err := json.Unmarshal(data, &it); err != nil {
			return false, "", err
		}
		res, err := e2eExec([]e2eItem{it}, 0)
		if err != nil {
			return false, "", err
		}
		if len(res.Errors) > 0 {
			return false, "", fmt.Errorf("%s", res.Errors[0])
		}
		if len(res.Violations) > 0 {
			v := res.Violations[0]
			return true, "C05/E-" + v.Rule + ": " + v.What + " | trace: " + strings.Join(v.Trace, "; "), nil
		}
		return false, "the real engines deliver everything exactly once on this path", nil
	})
}

// runC05E2E replays the collected model paths on the real engines and folds the outcome into the evidence.
func runC05E2E(c *core.Ctx, items []e2eItem, budget time.Duration) {
	if len(items) == 0 {
		return
	}
	res, err := e2eExec(items, budget)
	if err != nil {
		c.EngineError(err.Error())
		return
	}
	c.AddTraces(int64(res.Matched))
	c.Set("real_engine_paths_replayed", res.Replayed)
	if res.NotRun > 0 {
		c.Cap(fmt.Sprintf("real-engine replay stopped early (time budget %v or 25 violations): %d of %d paths not replayed", budget, res.NotRun, res.Replayed+res.NotRun))
	}
	c.Set("real_engine_paths_matching_model_frame_by_frame", res.Matched)
	c.Set("real_engine_frames_forwarded", res.Frames)
	for _, v := range res.Violations {
		store := "memory"
		if v.Item.File {
			store = "file"
		}
		c.Violation(fmt.Sprintf("C05/E-%s store=%s", v.Rule, store), "real Initiator+Acceptor (run loops, connection loops, timers under a virtual clock): "+v.What+" | "+c05Describe(v.Item.Path)+" | trace: "+strings.Join(v.Trace, "; "), "C05/e2e", v.Item)
	}
	for i, e := range res.Errors {
		if i < 3 {
			c.EngineError("real-engine replay: " + e)
		}
	}
	// a path on which the real engines satisfy the property but move other frames than the model: the model
	// misrepresents the code (engine error, never a verdict)
	c.Set("real_engine_paths_not_comparable_frame_by_frame", res.NotComp)
	for i, d := range res.Diverged {
		if i < 3 {
			c.EngineError("real engines diverge from the model pair: " + d)
		}
	}
	if res.DivergedN > 0 {
		c.Set("real_engine_paths_diverging_from_model", res.DivergedN)
	}
}
