package checks

import (
	"bytes"
	"context"
	"encoding/hex"
	"encoding/json"
	"fmt"
	"hash/fnv"
	"io"
	"os"
	"os/exec"
	"runtime"
	"sort"
	"strconv"
	"strings"
	"time"

	"github.com/quickfixgo/quickfix"
	"github.com/quickfixgo/quickfix/datadictionary"

	"verif/internal/core"
	"verif/internal/ddwalk"
	"verif/internal/fixscan"
	"verif/internal/sessmc"
)

// ---------- C09: no input crashes or hangs the engine (bounded-exhaustive, worker processes) ----------

const specDir = "/repo/spec/"

var c09DictNames = []string{"FIX40", "FIX41", "FIX42", "FIX43", "FIX44", "FIX50", "FIX50SP1", "FIX50SP2", "FIXT11"}

type c09Dicts struct {
	byName map[string]*datadictionary.DataDictionary
}

func loadDicts() (*c09Dicts, error) {
	d := &c09Dicts{byName: map[string]*datadictionary.DataDictionary{}}
	for _, n := range c09DictNames {
		dd, err := datadictionary.Parse(specDir + n + ".xml")
		if err != nil {
			return nil, fmt.Errorf("%s: %v", n, err)
		}
		d.byName[n] = dd
	}
	return d, nil
}

// panicSite returns the innermost quickfix function on the stack of a recovered panic.
func panicSite() string {
	pcs := make([]uintptr, 64)
	n := runtime.Callers(3, pcs)
	frames := runtime.CallersFrames(pcs[:n])
	for {
		f, more := frames.Next()
		if strings.Contains(f.Function, "quickfixgo/quickfix") && !strings.Contains(f.Function, "Verif") {
			fn := f.Function[strings.LastIndex(f.Function, "/")+1:]
			return fn
		}
		if !more {
			break
		}
	}
	return "unknown"
}

// guard runs f and converts a panic into (site, text).
func guard(f func()) (site, txt string) {
	defer func() {
		if r := recover(); r != nil {
			site, txt = panicSite(), fmt.Sprint(r)
		}
	}()
	f()
	return "", ""
}

type c09Case struct {
	Sink  string `json:"sink"`
	Input string `json:"input_hex"`
	Aux   string `json:"aux,omitempty"`
}

// ---- sinks ----

var c09Settings = func() []quickfix.ValidatorSettings {
	var out []quickfix.ValidatorSettings
	for i := 0; i < 32; i++ {
		out = append(out, quickfix.ValidatorSettings{CheckFieldsOutOfOrder: i&1 != 0, RejectInvalidMessage: i&2 != 0,
			AllowUnknownMessageFields: i&4 != 0, CheckUserDefinedFields: i&8 != 0, CheckFieldsHaveValues: i&16 != 0})
	}
	return out
}()

var c09Template = quickfix.GroupTemplate{quickfix.GroupElement(448), quickfix.GroupElement(447), quickfix.GroupElement(452),
	quickfix.NewRepeatingGroup(802, quickfix.GroupTemplate{quickfix.GroupElement(523), quickfix.GroupElement(803)})}

func touchAccessors(fm *quickfix.FieldMap) {
	for _, t := range fm.Tags() {
		fm.GetInt(t)
		fm.GetBool(t)
		fm.GetTime(t)
		fm.GetString(t)
		fm.GetBytes(t)
		var fl quickfix.FIXFloat
		fm.GetField(t, &fl)
		var de quickfix.FIXDecimal
		fm.GetField(t, &de)
		var ts quickfix.FIXUTCTimestamp
		fm.GetField(t, &ts)
		g := quickfix.NewRepeatingGroup(t, c09Template)
		fm.GetGroup(g)
	}
}

// sinkParse: parse with the three dictionary variants, touch all accessors, validate.
func sinkParse(d *c09Dicts, in []byte, validate bool) {
	for v := 0; v < 3; v++ {
		m := quickfix.NewMessage()
		var err error
		buf := bytes.NewBuffer(append([]byte{}, in...))
		switch v {
		case 0:
			err = quickfix.ParseMessage(m, buf)
		case 1:
			err = quickfix.ParseMessageWithDataDictionary(m, buf, nil, d.byName["FIX44"])
		case 2:
			err = quickfix.ParseMessageWithDataDictionary(m, buf, d.byName["FIXT11"], d.byName["FIX50SP2"])
		}
		touchAccessors(&m.Header.FieldMap)
		touchAccessors(&m.Body.FieldMap)
		touchAccessors(&m.Trailer.FieldMap)
		m.MsgType()
		_ = m.String()
		if err == nil {
			m.Bytes()
			if validate && v == 0 {
				for _, name := range c09DictNames[:8] {
					for _, st := range c09Settings {
						quickfix.NewValidator(st, d.byName[name], nil).Validate(m)
						if name[:5] == "FIX50" {
							quickfix.NewValidator(st, d.byName[name], d.byName["FIXT11"]).Validate(m)
						}
					}
				}
			}
		}
	}
}

// sinkRead: every FieldValue reader.
func sinkRead(in []byte) {
	var a quickfix.FIXInt
	a.Read(in)
	var b quickfix.FIXFloat
	b.Read(in)
	var c quickfix.FIXBoolean
	c.Read(in)
	var d quickfix.FIXUTCTimestamp
	d.Read(in)
	var e quickfix.FIXDecimal
	e.Read(in)
	var f quickfix.FIXUDecimal
	f.Read(in)
	var g quickfix.FIXString
	g.Read(in)
	var h quickfix.FIXBytes
	h.Read(in)
}

type chunkReader struct {
	data []byte
	step int
}

func (r *chunkReader) Read(p []byte) (int, error) {
	if len(r.data) == 0 {
		return 0, io.EOF
	}
	n := r.step
	if n > len(r.data) {
		n = len(r.data)
	}
	if n > len(p) {
		n = len(p)
	}
	copy(p, r.data[:n])
	r.data = r.data[n:]
	return n, nil
}

// sinkFrame: stream framing under three chunkings; bounded number of frames.
func sinkFrame(in []byte) {
	for _, step := range []int{1, 7, 1 << 20} {
		p := quickfix.VerifNewParser(&chunkReader{data: append([]byte{}, in...), step: step})
		for i := 0; i < len(in)+4; i++ {
			if _, err := p.ReadMessage(); err != nil {
				break
			}
		}
	}
}

// session states for sinkSession
var c09States = []struct {
	name     string
	cfg      sessmc.Config
	prefix   []*sessmc.Event
	gridOnly bool // used with the sequence-field grid only (not with every mutant)
}{
	{"latent", sessmc.Config{}, nil, false},
	{"logon-acceptor", sessmc.Config{}, []*sessmc.Event{sessmc.EvConnect()}, false},
	{"logon-initiator", sessmc.Config{Initiator: true}, []*sessmc.Event{sessmc.EvConnect()}, false},
	{"normal", sessmc.Config{}, []*sessmc.Event{sessmc.EvConnect(), sessmc.EvLogon(0, 0, "")}, false},
	{"recovering", sessmc.Config{}, []*sessmc.Event{sessmc.EvConnect(), sessmc.EvLogon(0, 0, ""), sessmc.EvIn("D", 2, false)}, false},
	{"pending", sessmc.Config{}, []*sessmc.Event{sessmc.EvConnect(), sessmc.EvLogon(0, 0, ""), sessmc.EvTimeout(quickfix.VerifPeerTimeout)}, false},
	{"pending+recovering", sessmc.Config{}, []*sessmc.Event{sessmc.EvConnect(), sessmc.EvLogon(0, 0, ""), sessmc.EvIn("D", 2, false), sessmc.EvTimeout(quickfix.VerifPeerTimeout)}, false},
	{"logout", sessmc.Config{Initiator: true}, []*sessmc.Event{sessmc.EvConnect(), sessmc.EvLogon(0, 0, ""), sessmc.EvStop()}, false},
	{"not-session-time", sessmc.Config{Extra: map[string]string{"StartTime": "00:00:00", "EndTime": "00:00:01", "Weekdays": "Mon"}}, nil, false},
	{"normal+dictionary", sessmc.Config{BeginString: "FIX.4.4", DataDictionary: specDir + "FIX44.xml"}, []*sessmc.Event{sessmc.EvConnect(), sessmc.EvLogon(0, 0, "")}, false},
	{"normal+fixt", sessmc.Config{BeginString: "FIXT.1.1", TransportDD: specDir + "FIXT11.xml", AppDD: specDir + "FIX50SP2.xml"}, []*sessmc.Event{sessmc.EvConnect(), sessmc.EvLogon(0, 0, "")}, false},
	// a replay was abandoned on the previous connection: the application had sent a value containing the field
	// separator, the stored bytes do not parse back, the peer's ResendRequest ended that connection
	{"reconnected-after-failed-replay", sessmc.Config{}, []*sessmc.Event{sessmc.EvConnect(), sessmc.EvLogon(0, 0, ""),
		{K: "send", Name: "send(58 with SOH)", Send: []fixscan.Field{{11, "ID"}, {55, "X"}, {58, "a\x01b"}}}, sessmc.EvFlush(),
		sessmc.EvIn("2", 0, false, fixscan.Field{7, "1"}, fixscan.Field{16, "0"}), sessmc.EvConnect(), sessmc.EvLogon(0, 0, "")}, true},
}

// sinkSession: feed the bytes to a session in each state, then a well-formed TestRequest.
// Returns a non-panic violation text ("" if fine).
func sinkSession(in []byte, stateIdx int) (viol string) {
	stt := c09States[stateIdx]
	w, err := sessmc.NewWorld(stt.cfg)
	if err != nil {
		return "engine: " + err.Error()
	}
	defer w.Close()
	for _, e := range stt.prefix {
		w.Apply(e)
	}
	ev := &sessmc.Event{K: "in", Name: "in(mutant)", In: &sessmc.In{Garbage: string(in)}}
	if !w.Enabled(ev) {
		// not connected: Incoming is still what the run loop would call for a buffered message
		w.VS.Incoming(quickfix.VerifMkIn(in, time.Now()))
		return ""
	}
	for _, o := range w.Apply(ev) {
		if o.K == "panic" {
			panic(o.Txt) // re-raise so that the caller records it (site unknown here)
		}
	}
	st := w.VS.Snapshot().State
	if strings.Contains(st, "inSession") || strings.Contains(st, "resend") {
		ping := sessmc.EvIn("1", 0, false, fixscan.Field{112, "PING"})
		got := false
		for _, o := range w.Apply(ping) {
			if o.K == "panic" {
				panic(o.Txt)
			}
			if o.K == "out" && o.Type == "0" {
				if m, err := fixscan.Scan(o.Raw); err == nil {
					if v, _ := m.Get(112); v == "PING" {
						got = true
					}
				}
			}
		}
		if !got {
			return fmt.Sprintf("session in state %s (after the input: %s) did not answer the next well-formed TestRequest", stt.name, st)
		}
	}
	return ""
}

// ---- inputs ----

var c09Alphabet = []byte{'8', '9', '3', '5', '1', '0', '=', 0x01, '-', 'A'}

func c09Seeds() [][]fixscan.Field {
	now := fixscan.Stamp(time.Now())
	hdr := func(bs, t string, seq int) []fixscan.Field {
		return []fixscan.Field{{8, bs}, {35, t}, {34, strconv.Itoa(seq)}, {49, "TW"}, {52, now}, {56, "ISLD"}}
	}
	app := func(f []fixscan.Field, more ...fixscan.Field) []fixscan.Field { return append(f, more...) }
	var s [][]fixscan.Field
	for _, bs := range []string{"FIX.4.0", "FIX.4.2", "FIX.4.4", "FIXT.1.1"} {
		s = append(s, app(hdr(bs, "A", 1), fixscan.Field{98, "0"}, fixscan.Field{108, "30"}, fixscan.Field{141, "Y"}, fixscan.Field{1137, "9"}))
		s = append(s, app(hdr(bs, "0", 2), fixscan.Field{112, "X"}))
		s = append(s, app(hdr(bs, "D", 2), fixscan.Field{11, "ID"}, fixscan.Field{21, "1"}, fixscan.Field{55, "IBM"}, fixscan.Field{54, "1"}, fixscan.Field{60, now}, fixscan.Field{38, "100"}, fixscan.Field{40, "2"}, fixscan.Field{44, "12.5"}))
	}
	// administrative messages in the BeginString of the plain session states (FIX.4.2), so that their mutants get
	// past the BeginString gate and reach the handlers
	{
		bs := "FIX.4.2"
		s = append(s, app(hdr(bs, "1", 2), fixscan.Field{112, "T"}))
		s = append(s, app(hdr(bs, "2", 2), fixscan.Field{7, "1"}, fixscan.Field{16, "0"}))
		s = append(s, app(hdr(bs, "3", 2), fixscan.Field{45, "1"}, fixscan.Field{371, "55"}, fixscan.Field{372, "D"}, fixscan.Field{373, "1"}, fixscan.Field{58, "x"}))
		s = append(s, app(hdr(bs, "4", 2), fixscan.Field{43, "Y"}, fixscan.Field{122, now}, fixscan.Field{123, "Y"}, fixscan.Field{36, "5"}))
		s = append(s, app(hdr(bs, "5", 2), fixscan.Field{58, "bye"}))
	}
	bs := "FIX.4.4"
	s = append(s, app(hdr(bs, "1", 2), fixscan.Field{112, "T"}))
	s = append(s, app(hdr(bs, "2", 2), fixscan.Field{7, "1"}, fixscan.Field{16, "0"}))
	s = append(s, app(hdr(bs, "3", 2), fixscan.Field{45, "1"}, fixscan.Field{371, "55"}, fixscan.Field{372, "D"}, fixscan.Field{373, "1"}, fixscan.Field{58, "x"}))
	s = append(s, app(hdr(bs, "4", 2), fixscan.Field{43, "Y"}, fixscan.Field{122, now}, fixscan.Field{123, "Y"}, fixscan.Field{36, "5"}))
	s = append(s, app(hdr(bs, "5", 2), fixscan.Field{58, "bye"}))
	s = append(s, app(hdr(bs, "j", 2), fixscan.Field{45, "1"}, fixscan.Field{372, "D"}, fixscan.Field{380, "3"}))
	// NewOrderSingle with nested groups (NoPartyIDs > NoPartySubIDs) and trailing body fields
	s = append(s, app(hdr(bs, "D", 2), fixscan.Field{11, "ID"}, fixscan.Field{453, "2"}, fixscan.Field{448, "P1"}, fixscan.Field{447, "D"}, fixscan.Field{452, "1"},
		fixscan.Field{802, "1"}, fixscan.Field{523, "S1"}, fixscan.Field{803, "1"}, fixscan.Field{448, "P2"}, fixscan.Field{447, "D"}, fixscan.Field{452, "2"},
		fixscan.Field{55, "IBM"}, fixscan.Field{54, "1"}, fixscan.Field{60, now}, fixscan.Field{40, "1"}))
	// XMLData in the header
	s = append(s, []fixscan.Field{{8, bs}, {35, "D"}, {34, "2"}, {49, "TW"}, {52, now}, {56, "ISLD"}, {212, "7"}, {213, "<a>b</a"}, {11, "ID"}, {55, "X"}})
	// signature in trailer
	s = append(s, app(hdr(bs, "D", 2), fixscan.Field{11, "ID"}, fixscan.Field{55, "X"}, fixscan.Field{93, "3"}, fixscan.Field{89, "abc"}))
	// market data snapshot with group
	s = append(s, app(hdr(bs, "W", 2), fixscan.Field{55, "X"}, fixscan.Field{268, "2"}, fixscan.Field{269, "0"}, fixscan.Field{270, "1.5"}, fixscan.Field{271, "10"}, fixscan.Field{269, "1"}, fixscan.Field{270, "1.6"}))
	// possdup resend
	s = append(s, app(hdr(bs, "D", 1), fixscan.Field{43, "Y"}, fixscan.Field{122, now}, fixscan.Field{11, "ID"}, fixscan.Field{55, "X"}))
	return s
}

var c09Values = []string{"", "-", "0", "-1", "A", "99999999999999999999", "1000000", "Y", "20240101-00:00:00.000", "20240101-00:00:00.1234567890", "20240101-00:00:00.123456789012", "9223372036854775807", "-9223372036854775808", "9223372036854775000"}

// fieldMutants: all single mutations of a field list. Each returns a field list (9/10 excluded; framing recomputed
// by Build) or raw bytes.
type c09Mut struct {
	fields []fixscan.Field
	raw    []byte
	desc   string
}

func singleFieldMutations(f []fixscan.Field) []c09Mut {
	var out []c09Mut
	cp := func() []fixscan.Field { return append([]fixscan.Field{}, f...) }
	for i := range f {
		// delete
		g := cp()
		g = append(g[:i], g[i+1:]...)
		out = append(out, c09Mut{fields: g, desc: fmt.Sprintf("del#%d(%d)", i, f[i].Tag)})
		// duplicate
		g = cp()
		g = append(g[:i+1], append([]fixscan.Field{f[i]}, g[i+1:]...)...)
		out = append(out, c09Mut{fields: g, desc: fmt.Sprintf("dup#%d(%d)", i, f[i].Tag)})
		// swap with next
		if i+1 < len(f) {
			g = cp()
			g[i], g[i+1] = g[i+1], g[i]
			out = append(out, c09Mut{fields: g, desc: fmt.Sprintf("swap#%d", i)})
		}
		for _, v := range c09Values {
			if v == f[i].Value {
				continue
			}
			g = cp()
			g[i].Value = v
			out = append(out, c09Mut{fields: g, desc: fmt.Sprintf("val#%d(%d)=%q", i, f[i].Tag, v)})
		}
		// insert data fields after position i
		for _, n := range []string{"0", "3", "1000000", "-4", "", "9223372036854775807", "9223372036854775800"} {
			g = cp()
			g = append(g[:i+1], append([]fixscan.Field{{212, n}, {213, "<x>"}}, g[i+1:]...)...)
			out = append(out, c09Mut{fields: g, desc: fmt.Sprintf("xml#%d(%s)", i, n)})
		}
	}
	return out
}

// xmlLenSweep: XMLDataLen/XMLData inserted after every field, with every declared length from 0 up to past the end
// of the message (the data ending exactly at the last field, at the CheckSum, at the final delimiter, one byte beyond).
func xmlLenSweep(f []fixscan.Field) []c09Mut {
	var out []c09Mut
	cp := func() []fixscan.Field { return append([]fixscan.Field{}, f...) }
	for i := 1; i < len(f); i++ {
		rest := 16
		for _, x := range f[i+1:] {
			rest += len(strconv.Itoa(x.Tag)) + len(x.Value) + 2
		}
		for n := 0; n <= rest; n++ {
			g := cp()
			g = append(g[:i+1], append([]fixscan.Field{{212, strconv.Itoa(n)}, {213, "<x>"}}, g[i+1:]...)...)
			out = append(out, c09Mut{fields: g, desc: fmt.Sprintf("xml#%d(len %d)", i, n)})
		}
	}
	return out
}

func buildMut(m c09Mut) []byte {
	if m.raw != nil {
		return m.raw
	}
	if len(m.fields) == 0 {
		return []byte{}
	}
	return fixscan.Build(m.fields)
}

// rawMutations of well-formed bytes: truncations, BodyLength edits, trailer drop, checksum edits.
func rawMutations(b []byte) []c09Mut {
	var out []c09Mut
	for k := 0; k < len(b); k++ {
		out = append(out, c09Mut{raw: append([]byte{}, b[:k]...), desc: fmt.Sprintf("trunc@%d", k)})
	}
	i9 := bytes.Index(b, []byte("\x019=")) + 1
	e9 := i9 + bytes.IndexByte(b[i9:], 1)
	cur, _ := strconv.Atoi(string(b[i9+2 : e9]))
	for _, v := range []string{strconv.Itoa(cur + 1), strconv.Itoa(cur - 1), strconv.Itoa(cur + 10), strconv.Itoa(cur - 10), "", "-5", "0", "A", "99999999999999999999", "1000000", "9223372036854775807", "9223372036854775800", "-9223372036854775808"} {
		r := append([]byte{}, b[:i9+2]...)
		r = append(r, v...)
		r = append(r, b[e9:]...)
		out = append(out, c09Mut{raw: r, desc: "bodylength=" + v})
	}
	i10 := bytes.LastIndex(b, []byte("\x0110="))
	out = append(out, c09Mut{raw: append([]byte{}, b[:i10+1]...), desc: "drop-trailer"})
	for _, v := range []string{"", "0", "000", "1234", "ABC"} {
		r := append([]byte{}, b[:i10+4]...)
		r = append(r, v...)
		r = append(r, 1)
		out = append(out, c09Mut{raw: r, desc: "checksum=" + v})
	}
	// leading order permutations
	out = append(out, c09Mut{raw: append(append([]byte{}, b[i9:]...), b[:i9]...), desc: "rotate-8"})
	return out
}

// settings texts
var c09SettingLines = []string{"[DEFAULT]", "[SESSION]", "A=B", "BeginString=FIX.4.2", "SenderCompID=S", "TargetCompID=T", "=", "# c", "[", "SocketAcceptPort=x"}

// dictionary XML fragments
func c09DictDocs() []string {
	hdr := `<header><field name="BeginString" required="Y"/></header>`
	trl := `<trailer><field name="CheckSum" required="Y"/></trailer>`
	flds := `<fields><field number="8" name="BeginString" type="STRING"/><field number="10" name="CheckSum" type="STRING"/><field number="1" name="A" type="INT"/><field number="2" name="NoB" type="NUMINGROUP"/><field number="3" name="C" type="STRING"/></fields>`
	msgsVariants := []string{
		`<messages><message name="M" msgtype="M" msgcat="app"><field name="A" required="Y"/></message></messages>`,
		`<messages><message name="M" msgtype="M" msgcat="app"><component name="X" required="Y"/></message></messages>`,
		`<messages><message name="M" msgtype="M" msgcat="app"><group name="NoB" required="N"><field name="C" required="Y"/></group></message></messages>`,
		`<messages><message name="M" msgtype="M" msgcat="app"><field name="ZZ" required="Y"/></message></messages>`,
		`<messages><message name="M" msgtype="M" msgcat="app"><group name="NoB" required="N"></group></message></messages>`,
		`<messages></messages>`, ``,
	}
	compVariants := []string{
		`<components><component name="X"><field name="A" required="Y"/></component></components>`,
		`<components><component name="X"><component name="X" required="Y"/></component></components>`,
		`<components><component name="X"><component name="Y" required="Y"/></component><component name="Y"><component name="X" required="N"/></component></components>`,
		`<components><component name="X"><component name="Q" required="Y"/></component></components>`,
		`<components><component name="X"><group name="NoB" required="Y"><component name="X" required="N"/></group></component></components>`,
		`<components></components>`, ``,
	}
	var docs []string
	for _, attrs := range []string{`type="FIX" major="4" minor="4"`, `type="FIX" major="x" minor="4"`, `major="4"`, ``} {
		for _, h := range []string{hdr, ``} {
			for _, t := range []string{trl, ``} {
				for _, m := range msgsVariants {
					for _, c := range compVariants {
						for _, f := range []string{flds, ``} {
							docs = append(docs, `<fix `+attrs+`>`+h+t+m+c+f+`</fix>`)
						}
					}
				}
			}
		}
	}
	docs = append(docs, "", "<fix", "<fix></fix>", "<<>>", "<fix><messages><message/></messages></fix>")
	return docs
}

// ---- enumeration (deterministic: index -> case) ----

type c09Job struct {
	kind string
	run  func(d *c09Dicts) (viol string)
	desc func() c09Case
}

// c09ForEach enumerates the cases of one shard in a fixed order.
func c09ForEach(tier string, shard, shards int, from int64, f func(idx int64, sink string, input []byte, aux string, run func(d *c09Dicts) string)) {
	idx := int64(-1)
	emit := func(sink string, input []byte, aux string, run func(d *c09Dicts) string) {
		idx++
		if int(idx%int64(shards)) != shard || idx < from {
			return
		}
		f(idx, sink, input, aux, run)
	}
	quick := tier != "thorough"
	// (a) all strings up to length L
	L := 6
	if !quick {
		L = 7
	}
	buf := make([]byte, 0, 8)
	var rec func(n int)
	rec = func(n int) {
		in := append([]byte{}, buf...)
		emit("parse-string", in, "", func(d *c09Dicts) string { sinkParse(d, in, false); return "" })
		if len(in) <= 5 {
			emit("read-string", in, "", func(d *c09Dicts) string { sinkRead(in); return "" })
		}
		if len(in) <= 5 || !quick {
			emit("frame-string", in, "", func(d *c09Dicts) string { sinkFrame(in); return "" })
		}
		if n == L {
			return
		}
		for _, c := range c09Alphabet {
			buf = append(buf, c)
			rec(n + 1)
			buf = buf[:len(buf)-1]
		}
	}
	rec(0)
	// (a1) every value type reads texts of every length up to 40 drawn from the timestamp alphabet's extremes:
	// timestamps with 0..20 fraction digits (only 0, 3, 6 and 9 are precisions of the grammar), long runs of digits
	for k := 0; k <= 20; k++ {
		ts := "20240101-00:00:00"
		if k > 0 {
			ts += "." + strings.Repeat("1234567890", 3)[:k]
		}
		for _, in := range [][]byte{[]byte(ts), []byte(strings.Repeat("9", 17+k)), []byte(ts + "Z")} {
			in := in
			emit("read-string", in, "", func(d *c09Dicts) string { sinkRead(in); return "" })
		}
	}
	// (b) seeds x mutations
	seeds := c09Seeds()
	for si, seed := range seeds {
		muts := singleFieldMutations(seed)
		muts = append(muts, rawMutations(fixscan.Build(seed))...)
		var all []c09Mut
		all = append(all, c09Mut{fields: seed, desc: "seed"})
		all = append(all, muts...)
		if !quick || si%4 == 2 {
			// pairs of field-level mutations (second mutation applied to the result of the first)
			singles := singleFieldMutations(seed)
			step := 1
			if quick {
				step = 7
			}
			for i := 0; i < len(singles); i += step {
				second := singleFieldMutations(singles[i].fields)
				for j := 0; j < len(second); j += step {
					all = append(all, c09Mut{fields: second[j].fields, desc: singles[i].desc + "+" + second[j].desc})
				}
			}
		}
		for _, m := range all {
			in := buildMut(m)
			desc := fmt.Sprintf("seed%d:%s", si, m.desc)
			heavy := !strings.Contains(m.desc, "+") || !quick
			emit("parse+validate", in, desc, func(d *c09Dicts) string { sinkParse(d, in, heavy); return "" })
			emit("frame", in, desc, func(d *c09Dicts) string { sinkFrame(append(append([]byte("xx"), in...), in...)); return "" })
			for sti := range c09States {
				sti := sti
				if c09States[sti].gridOnly || (quick && strings.Contains(m.desc, "+") && sti%3 != 0) {
					continue
				}
				emit("session:"+c09States[sti].name, in, desc, func(d *c09Dicts) string { return sinkSession(in, sti) })
			}
		}
	}
	// (b0) XMLDataLen sweep: parsed (three dictionary variants) and fed to a logged-on session
	for si, seed := range seeds {
		if quick && si%3 != 0 {
			continue
		}
		for _, m := range xmlLenSweep(seed) {
			in := buildMut(m)
			desc := fmt.Sprintf("seed%d:%s", si, m.desc)
			emit("parse", in, desc, func(d *c09Dicts) string { sinkParse(d, in, false); return "" })
			emit("session:"+c09States[0].name, in, desc, func(d *c09Dicts) string { return sinkSession(in, 0) })
		}
	}
	// (b1) the sequence-field grid: every administrative/application type with every small MsgSeqNum, PossDup,
	// NewSeqNo/GapFill and BeginSeqNo/EndSeqNo combination, fed to every session state (kept while recovering,
	// then drained by the follow-up TestRequest that fills the gap)
	{
		now := fixscan.Stamp(time.Now())
		for _, typ := range []string{"0", "1", "2", "4", "5", "A", "D"} {
			for seq := 1; seq <= 5; seq++ {
				for _, pd := range []bool{false, true} {
					base := []fixscan.Field{{8, "FIX.4.2"}, {35, typ}, {34, strconv.Itoa(seq)}, {49, "TW"}, {52, now}, {56, "ISLD"}}
					if pd {
						base = append(base, fixscan.Field{43, "Y"}, fixscan.Field{122, now})
					}
					var variants [][]fixscan.Field
					switch typ {
					case "4":
						for ns := 1; ns <= 6; ns++ {
							for _, gf := range []string{"N", "Y"} {
								variants = append(variants, append(append([]fixscan.Field{}, base...), fixscan.Field{123, gf}, fixscan.Field{36, strconv.Itoa(ns)}))
							}
						}
					case "2":
						for b := 0; b <= 4; b++ {
							for _, e := range []int{0, 1, 3, 9} {
								variants = append(variants, append(append([]fixscan.Field{}, base...), fixscan.Field{7, strconv.Itoa(b)}, fixscan.Field{16, strconv.Itoa(e)}))
							}
						}
					case "1":
						variants = append(variants, append(append([]fixscan.Field{}, base...), fixscan.Field{112, "Q"}))
					case "A":
						variants = append(variants, append(append([]fixscan.Field{}, base...), fixscan.Field{98, "0"}, fixscan.Field{108, "30"}))
						variants = append(variants, append(append([]fixscan.Field{}, base...), fixscan.Field{98, "0"}, fixscan.Field{108, "30"}, fixscan.Field{141, "Y"}))
					case "D":
						variants = append(variants, append(append([]fixscan.Field{}, base...), fixscan.Field{11, "ID"}, fixscan.Field{21, "1"}, fixscan.Field{55, "IBM"}, fixscan.Field{54, "1"}, fixscan.Field{60, now}, fixscan.Field{40, "1"}))
					default:
						variants = append(variants, base)
					}
					for vi, v := range variants {
						in := fixscan.Build(v)
						desc := fmt.Sprintf("grid:%s seq=%d possdup=%v variant=%d", typ, seq, pd, vi)
						for sti := range c09States {
							sti := sti
							if c09States[sti].cfg.BeginString != "" {
								continue
							}
							emit("session:"+c09States[sti].name, in, desc, func(d *c09Dicts) string { return sinkSession(in, sti) })
						}
					}
				}
			}
		}
	}
	// (b2) every field of every shipped dictionary once in a message validated against that dictionary
	// (validation looks at the declared type of every field it meets, whatever the message type)
	if c13Load() == nil {
		for _, dn := range c09DictNames {
			ws := c13Walks[dn]
			bs := map[string]string{"FIX40": "FIX.4.0", "FIX41": "FIX.4.1", "FIX42": "FIX.4.2", "FIX43": "FIX.4.3", "FIX44": "FIX.4.4"}[dn]
			if bs == "" {
				bs = "FIXT.1.1"
			}
			var tags []int
			for t := range ws.FieldsByTag {
				tags = append(tags, t)
			}
			sort.Ints(tags)
			// carrier: the application message type with the fewest required body fields, built conforming
			g, gerr := newC15Gen(dn)
			if gerr != nil {
				continue
			}
			var carrier *ddwalk.Msg
			for _, m := range ws.Messages {
				if dn != "FIXT11" && fixscan.IsAdminType(m.MsgType) {
					continue
				}
				if carrier == nil || len(m.Required) < len(carrier.Required) {
					carrier = m
				}
			}
			if carrier == nil {
				continue
			}
			base := g.message(carrier.MsgType, g.body(carrier, nil, 1))
			for _, t := range tags {
				if t == 8 || t == 9 || t == 10 || t == 35 || t == 212 || t == 213 {
					continue
				}
				for _, v := range []string{"A", "1", "20240101-00:00:00"} {
					f := append(append([]fixscan.Field{}, base...), fixscan.Field{Tag: t, Value: v})
					in := fixscan.Build(f)
					dn := dn
					emit("validate-field:"+dn, in, fmt.Sprintf("%s field %d=%s", dn, t, v), func(d *c09Dicts) string {
						m := quickfix.NewMessage()
						if quickfix.ParseMessage(m, bytes.NewBuffer(append([]byte{}, in...))) != nil {
							return ""
						}
						for _, si := range []int{27, 31} {
							if dn[:4] == "FIX5" {
								quickfix.NewValidator(c09Settings[si], d.byName[dn], d.byName["FIXT11"]).Validate(m)
							} else if dn == "FIXT11" {
								quickfix.NewValidator(c09Settings[si], d.byName["FIX50SP2"], d.byName["FIXT11"]).Validate(m)
							} else {
								quickfix.NewValidator(c09Settings[si], d.byName[dn], nil).Validate(m)
							}
						}
						return ""
					})
				}
			}
		}
	}
	// (c) settings texts: all line sequences up to length 4 (3 quick)
	maxLines := 3
	if !quick {
		maxLines = 4
	}
	var lines []string
	var recS func()
	recS = func() {
		txt := strings.Join(lines, "\n")
		emit("settings", []byte(txt), "", func(d *c09Dicts) string {
			quickfix.ParseSettings(strings.NewReader(txt))
			return ""
		})
		if len(lines) == maxLines {
			return
		}
		for _, l := range c09SettingLines {
			lines = append(lines, l)
			recS()
			lines = lines[:len(lines)-1]
		}
	}
	recS()
	// (d) dictionary documents
	for _, doc := range c09DictDocs() {
		doc := doc
		emit("dictionary", []byte(doc), "", func(d *c09Dicts) string {
			datadictionary.ParseSrc(strings.NewReader(doc))
			return ""
		})
	}
}

func c09Worker(args []string) int {
	wa := core.ParseWorkerArgs(args)
	out := core.NewWorkerOut()
	d, err := loadDicts()
	if err != nil {
		fmt.Fprintln(os.Stderr, err)
		return 2
	}
	res := core.WorkerResult{Counters: map[string]int64{}}
	seen := map[uint64]struct{}{}
	start := time.Now()
	budget := 4 * time.Minute
	if wa.Tier == "thorough" {
		budget = 40 * time.Minute
	}
	var n int64
	stopped := false
	c09ForEach(wa.Tier, wa.Shard, wa.Shards, wa.From, func(idx int64, sink string, input []byte, aux string, run func(d *c09Dicts) string) {
		if stopped {
			return
		}
		if wa.Announce > 0 && n < wa.Announce {
			out.Announce(idx)
		} else if n%4096 == 0 {
			out.ProgressCounts(idx, res.Evals, res.Distinct)
			if time.Since(start) > budget {
				stopped = true
				fmt.Println("D")
				return
			}
		}
		n++
		var viol string
		site, txt := guard(func() { viol = run(d) })
		res.Evals++
		res.Counters["cases:"+strings.SplitN(sink, ":", 2)[0]]++
		h := fnv.New64a()
		h.Write([]byte(sink))
		h.Write(input)
		if _, ok := seen[h.Sum64()]; !ok {
			seen[h.Sum64()] = struct{}{}
			if len(input) > 0 {
				res.Distinct++
			}
		}
		if len(res.Samples) < 3 && len(input) > 20 && idx%977 == 0 {
			res.Samples = append(res.Samples, map[string]string{"sink": sink, "mutation": aux, "input": fixscan.Pretty(input)})
		}
		cs := c09Case{Sink: sink, Input: hex.EncodeToString(input), Aux: aux}
		raw, _ := json.Marshal(cs)
		if site != "" {
			sk := strings.SplitN(sink, ":", 2)[0]
			out.Violation(core.WorkerViolation{Sig: "C09/panic site=" + site + " sink=" + sk, What: fmt.Sprintf("panic %q on input %q (%s)", txt, fixscan.Pretty(input), aux), Kind: "C09/case", Data: raw})
		} else if viol != "" {
			out.Violation(core.WorkerViolation{Sig: "C09/no-recovery sink=" + sink, What: viol + fmt.Sprintf(" input %q (%s)", fixscan.Pretty(input), aux), Kind: "C09/case", Data: raw})
		}
	})
	out.Result(res)
	return 0
}

// refreshSendingTime rewrites a well-formed 17-byte SendingTime to the current second (a replayed case may be
// older than MaxLatency, which would change how a session treats it).
func refreshSendingTime(in []byte) []byte {
	i := bytes.Index(in, []byte("\x0152="))
	if i < 0 {
		return in
	}
	j := bytes.IndexByte(in[i+4:], 1)
	if j != 17 {
		return in
	}
	if _, err := time.Parse("20060102-15:04:05", string(in[i+4:i+4+17])); err != nil {
		return in
	}
	out := append([]byte{}, in...)
	copy(out[i+4:], fixscan.Stamp(time.Now()))
	return out
}

// c09RunCase re-executes one case in-process (replay driver).
func c09RunCase(cs c09Case) (bool, string, error) {
	d, err := loadDicts()
	if err != nil {
		return false, "", err
	}
	in, err := hex.DecodeString(cs.Input)
	if err != nil {
		return false, "", err
	}
	var viol string
	site, txt := guard(func() {
		sk := strings.SplitN(cs.Sink, ":", 2)
		switch sk[0] {
		case "parse-string", "parse":
			sinkParse(d, in, false)
		case "parse+validate":
			sinkParse(d, in, true)
		case "read-string":
			sinkRead(in)
		case "frame-string":
			sinkFrame(in)
		case "frame":
			sinkFrame(append(append([]byte("xx"), in...), in...))
		case "session":
			for i, s := range c09States {
				if s.name == sk[1] {
					viol = sinkSession(refreshSendingTime(in), i)
				}
			}
		case "validate-field":
			m := quickfix.NewMessage()
			if quickfix.ParseMessage(m, bytes.NewBuffer(append([]byte{}, in...))) == nil {
				for _, name := range c09DictNames {
					for _, si := range []int{27, 31} {
						quickfix.NewValidator(c09Settings[si], d.byName[name], nil).Validate(m)
						quickfix.NewValidator(c09Settings[si], d.byName[name], d.byName["FIXT11"]).Validate(m)
					}
				}
			}
		case "settings":
			quickfix.ParseSettings(strings.NewReader(string(in)))
		case "dictionary":
			datadictionary.ParseSrc(strings.NewReader(string(in)))
		}
	})
	if site != "" {
		return true, "panic at " + site + ": " + txt, nil
	}
	return viol != "", viol, nil
}

func init() {
	register("C09", core.LevelExploration, runC09)
	workers["c09"] = c09Worker
	workers["c09desc"] = func(args []string) int {
		var shard, shards int
		var idx int64
		fmt.Sscan(args[0], &shard)
		fmt.Sscan(args[1], &shards)
		fmt.Sscan(args[2], &idx)
		c09ForEach(args[3], shard, shards, idx, func(i int64, sink string, input []byte, aux string, run func(d *c09Dicts) string) {
			if i == idx {
				b, _ := json.Marshal(c09Case{Sink: sink, Input: hex.EncodeToString(input), Aux: aux})
				fmt.Println(string(b))
				fmt.Println(fixscan.Pretty(input))
			}
		})
		return 0
	}
	workers["c09case"] = func(args []string) int {
		var cs c09Case
		if len(args) < 1 || json.Unmarshal([]byte(args[0]), &cs) != nil {
			return 2
		}
		v, what, err := c09RunCase(cs)
		if err != nil {
			fmt.Fprintln(os.Stderr, err)
			return 2
		}
		if v {
			fmt.Println(what)
			return 1
		}
		return 0
	}
	core.RegisterReplay("C09/case", func(data json.RawMessage) (bool, string, error) {
		var cs c09Case
		if err := json.Unmarshal(data, &cs); err != nil {
			return false, "", err
		}
		return c09RunCase(cs)
	})
	// a case that kills or hangs the process is re-executed in a sub-process
	core.RegisterReplay("C09/fatal", func(data json.RawMessage) (bool, string, error) {
		ctx, cancel := context.WithTimeout(context.Background(), 120*time.Second)
		defer cancel()
		cmd := exec.CommandContext(ctx, os.Args[0], "worker", "c09case", string(data))
		out, err := cmd.CombinedOutput()
		if ctx.Err() != nil {
			return true, "hang (no result within 120 s)", nil
		}
		if err == nil {
			return false, "", nil
		}
		tail := string(out)
		if i := strings.Index(tail, "\n\n"); i > 0 {
			tail = tail[:i]
		}
		if len(tail) > 300 {
			tail = tail[:300]
		}
		return true, "process died: " + tail, nil
	})
}

func runC09(c *core.Ctx) {
	c.SetRule("bounded-exhaustive inputs (all strings <= L over a 10-byte alphabet; every single and (thorough: every / quick: strided) double field-level mutation and raw mutation of ~24 seed messages; settings line sequences; dictionary documents from a small grammar) into every sink (parse x3 dictionary variants, typed accessors, validation x 9 dictionaries x 32 settings, stream framing x3 chunkings, session Incoming in 11 states + follow-up TestRequest, ParseSettings, dictionary loader); distinct = distinct (sink,input) with non-empty input")
	c.Assume("no random sampling; alphabets and mutation operators as listed", "a worker killed by a fatal runtime error or silent for 90 s is re-run with per-case announcements to attribute the failure",
		"session sink: inputs are delivered as already-framed messages (Incoming), framing is exercised by the frame sinks")
	shards := runtime.NumCPU()
	describe := func(shard int, idx int64) (string, any) {
		var cs c09Case
		c09ForEach(c.Tier, shard, shards, idx, func(i int64, sink string, input []byte, aux string, run func(d *c09Dicts) string) {
			if i == idx {
				cs = c09Case{Sink: sink, Input: hex.EncodeToString(input), Aux: aux}
			}
		})
		return "sink=" + strings.SplitN(cs.Sink, ":", 2)[0], cs
	}
	core.RunWorkers(c, "c09", nil, shards, "C09/fatal", describe)
}
