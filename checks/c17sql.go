package checks

import (
	"bytes"
	"context"
	"database/sql"
	"database/sql/driver"
	"encoding/json"
	"errors"
	"fmt"
	"os"
	"path/filepath"
	"strings"
	"sync"
	"sync/atomic"

	sqlite3 "github.com/mattn/go-sqlite3"
	"github.com/quickfixgo/quickfix"
	"github.com/quickfixgo/quickfix/config"
	sqlstore "github.com/quickfixgo/quickfix/store/sql"

	"verif/internal/core"
)

// ---- a database/sql driver that fails the k-th statement-level call ----

type faultCtl struct {
	armed  int32
	count  int32
	failAt int32
	log    []string
	mu     sync.Mutex
}

var sqlFault = &faultCtl{}

var errInjected = errors.New("injected statement failure")

func (f *faultCtl) hit(kind, q string) error {
	if atomic.LoadInt32(&f.armed) == 0 {
		return nil
	}
	n := atomic.AddInt32(&f.count, 1)
	f.mu.Lock()
	f.log = append(f.log, fmt.Sprintf("%d:%s %s", n, kind, firstWords(q)))
	f.mu.Unlock()
	if n == atomic.LoadInt32(&f.failAt) {
		return errInjected
	}
	return nil
}

func firstWords(q string) string {
	f := strings.Fields(q)
	if len(f) > 3 {
		f = f[:3]
	}
	return strings.Join(f, " ")
}

type faultDriver struct{ inner driver.Driver }

func (d faultDriver) Open(name string) (driver.Conn, error) {
	c, err := d.inner.Open(name)
	if err != nil {
		return nil, err
	}
	return &faultConn{c}, nil
}

type faultConn struct{ driver.Conn }

func (c *faultConn) ExecContext(ctx context.Context, q string, args []driver.NamedValue) (driver.Result, error) {
	if err := sqlFault.hit("exec", q); err != nil {
		return nil, err
	}
	return c.Conn.(driver.ExecerContext).ExecContext(ctx, q, args)
}
func (c *faultConn) QueryContext(ctx context.Context, q string, args []driver.NamedValue) (driver.Rows, error) {
	if err := sqlFault.hit("query", q); err != nil {
		return nil, err
	}
	return c.Conn.(driver.QueryerContext).QueryContext(ctx, q, args)
}
func (c *faultConn) BeginTx(ctx context.Context, opts driver.TxOptions) (driver.Tx, error) {
	if err := sqlFault.hit("begin", ""); err != nil {
		return nil, err
	}
	tx, err := c.Conn.(driver.ConnBeginTx).BeginTx(ctx, opts)
	if err != nil {
		return nil, err
	}
	return &faultTx{tx}, nil
}
func (c *faultConn) Ping(ctx context.Context) error {
	if p, ok := c.Conn.(driver.Pinger); ok {
		return p.Ping(ctx)
	}
	return nil
}
func (c *faultConn) ResetSession(ctx context.Context) error { return nil }

type faultTx struct{ driver.Tx }

func (t *faultTx) Commit() error {
	if err := sqlFault.hit("commit", ""); err != nil {
		t.Tx.Rollback()
		return err
	}
	return t.Tx.Commit()
}

var registerFaultDriver sync.Once

const faultDriverName = "sqlite3-verif-fault"

func c17SQLFactory(dbPath string) quickfix.MessageStoreFactory {
	registerFaultDriver.Do(func() { sql.Register(faultDriverName, faultDriver{&sqlite3.SQLiteDriver{}}) })
	st := quickfix.NewSettings()
	st.GlobalSettings().Set(config.SQLStoreDriver, faultDriverName)
	st.GlobalSettings().Set(config.SQLStoreDataSourceName, dbPath)
	ss := quickfix.NewSessionSettings()
	ss.Set(config.BeginString, c17ID.BeginString)
	ss.Set(config.SenderCompID, c17ID.SenderCompID)
	ss.Set(config.TargetCompID, c17ID.TargetCompID)
	st.AddSession(ss)
	return sqlstore.NewStoreFactory(st)
}

type c17SQLCase struct {
	Hist   []c17Op `json:"history"`
	FailAt int     `json:"fail_at"`
}

// c17SQLRun: run history; the last op runs with the failAt-th driver call failing (0 = count calls only).
// Returns number of driver calls of the last op and a violation.
func c17SQLRun(cs c17SQLCase, scratch string) (calls int, rule, what string, err error) {
	tmpl, err := sqliteTemplateDB()
	if err != nil {
		return 0, "", "", err
	}
	d, err := os.MkdirTemp(scratch, "q")
	if err != nil {
		return 0, "", "", err
	}
	defer os.RemoveAll(d)
	dbPath := filepath.Join(d, "s.db")
	if err := os.WriteFile(dbPath, tmpl, 0o644); err != nil {
		return 0, "", "", err
	}
	c17HookMu.Lock() // the fault controller is process-global
	defer c17HookMu.Unlock()
	atomic.StoreInt32(&sqlFault.armed, 0)
	st, err := c17SQLFactory(dbPath).Create(c17ID)
	if err != nil {
		return 0, "", "", err
	}
	defer st.Close()
	m := c17State{S: 1, T: 1, M: map[int][]byte{}}
	for i, o := range cs.Hist[:len(cs.Hist)-1] {
		ok, e := c17Apply(st, &m, o, i)
		if e != nil {
			return 0, "", "", e
		}
		if !ok {
			return 0, "", "", nil
		}
	}
	before := m.clone()
	last := cs.Hist[len(cs.Hist)-1]
	sqlFault.mu.Lock()
	sqlFault.log = nil
	sqlFault.mu.Unlock()
	atomic.StoreInt32(&sqlFault.count, 0)
	atomic.StoreInt32(&sqlFault.failAt, int32(cs.FailAt))
	atomic.StoreInt32(&sqlFault.armed, 1)
	ok, opErr := c17Apply(st, &m, last, len(cs.Hist)-1)
	atomic.StoreInt32(&sqlFault.armed, 0)
	calls = int(atomic.LoadInt32(&sqlFault.count))
	if !ok {
		return 0, "", "", nil
	}
	if cs.FailAt == 0 {
		if opErr != nil {
			return calls, "", "", opErr
		}
		return calls, "", "", nil
	}
	sqlFault.mu.Lock()
	failedCall := ""
	if cs.FailAt <= len(sqlFault.log) {
		failedCall = sqlFault.log[cs.FailAt-1]
	}
	sqlFault.mu.Unlock()
	ctx := fmt.Sprintf("op %s with driver call %q failing", last, failedCall)
	sig := fmt.Sprintf("op=%s call=%s", last.K, strings.SplitN(failedCall, ":", 2)[len(strings.SplitN(failedCall, ":", 2))-1])
	if opErr == nil {
		return calls, "C17/S-failure-not-reported " + sig, ctx, nil
	}
	// the database (seen by a fresh store) and the live store's cached counters
	fresh, ferr := c17SQLFactory(dbPath).Create(c17ID)
	if ferr != nil {
		return calls, "C17/S-reopen-fails " + sig, ferr.Error() + " | " + ctx, nil
	}
	defer fresh.Close()
	dS, dT := fresh.NextSenderMsgSeqNum(), fresh.NextTargetMsgSeqNum()
	if last.K == "saveincr" {
		// R6: neither the message nor the increment is left behind
		if dS != before.S {
			return calls, "C17/R6-increment-left-behind " + sig, fmt.Sprintf("database NextSender %d, before the failed operation %d | %s", dS, before.S, ctx), nil
		}
		got, gerr := fresh.GetMessages(before.S, before.S)
		if gerr != nil || len(got) != 0 {
			return calls, "C17/R6-message-left-behind " + sig, fmt.Sprintf("message %d present after the failed save-and-increment (%d rows, %v) | %s", before.S, len(got), gerr, ctx), nil
		}
		if st.NextSenderMsgSeqNum() != dS {
			return calls, "C17/R6-cache-differs-from-database " + sig, fmt.Sprintf("live store NextSender %d, database %d | %s", st.NextSenderMsgSeqNum(), dS, ctx), nil
		}
		// and the operation can be retried
		if err := st.SaveMessageAndIncrNextSenderMsgSeqNum(before.S, []byte("RETRY")); err != nil {
			return calls, "C17/R6-retry-fails " + sig, fmt.Sprintf("%v | %s", err, ctx), nil
		}
		if g, _ := st.GetMessages(before.S, before.S); len(g) != 1 || !bytes.Equal(g[0], []byte("RETRY")) {
			return calls, "C17/R6-retry-not-stored " + sig, ctx, nil
		}
		return calls, "", "", nil
	}
	// other operations: counters in the database are the values before or after, and the cache agrees with the database
	if (dS != before.S && dS != m.S) || (dT != before.T && dT != m.T) {
		return calls, "C17/S-counter-neither-before-nor-after " + sig, fmt.Sprintf("database counters %d/%d, before %d/%d, after %d/%d | %s", dS, dT, before.S, before.T, m.S, m.T, ctx), nil
	}
	if last.K != "reset" && (st.NextSenderMsgSeqNum() != dS || st.NextTargetMsgSeqNum() != dT) {
		return calls, "C17/S-cache-differs-from-database " + sig, fmt.Sprintf("live store %d/%d, database %d/%d | %s", st.NextSenderMsgSeqNum(), st.NextTargetMsgSeqNum(), dS, dT, ctx), nil
	}
	return calls, "", "", nil
}

func init() {
	core.RegisterReplay("C17/sql", func(data json.RawMessage) (bool, string, error) {
		var cs c17SQLCase
		if err := json.Unmarshal(data, &cs); err != nil {
			return false, "", err
		}
		scratch, cleanup := core.Scratch("c17q")
		defer cleanup()
		_, r, w, err := c17SQLRun(cs, scratch)
		return r != "", r + ": " + w, err
	})
}

func runC17SQL(c *core.Ctx, scratch string) {
	alpha := []c17Op{{K: "saveincr"}, {K: "save"}, {K: "incrT"}, {K: "setS", Arg: 7}, {K: "setT", Arg: 10}, {K: "reset"}, {K: "refresh"}}
	depth := 2
	if !c.Quick() {
		depth = 3
	}
	var hists [][]c17Op
	var rec func(h []c17Op)
	rec = func(h []c17Op) {
		if len(h) > 0 {
			hists = append(hists, append([]c17Op{}, h...))
		}
		if len(h) == depth {
			return
		}
		for _, o := range alpha {
			rec(append(h, o))
		}
	}
	rec(nil)
	var n int64
	for _, h := range hists {
		last := h[len(h)-1]
		if last.K == "save" || last.K == "refresh" {
			continue // single statements / reads: nothing to tear
		}
		calls, _, _, err := c17SQLRun(c17SQLCase{Hist: h}, scratch)
		if err != nil {
			c.EngineError(fmt.Sprintf("sql history %v: %v", h, err))
			continue
		}
		for k := 1; k <= calls; k++ {
			cs := c17SQLCase{Hist: h, FailAt: k}
			_, r, w, err := c17SQLRun(cs, scratch)
			n++
			if err != nil {
				c.EngineError(err.Error())
				continue
			}
			if r != "" {
				names := []string{}
				for _, o := range h {
					names = append(names, o.String())
				}
				c.Violation(r, w+" | history: "+strings.Join(names, "; "), "C17/sql", cs)
			}
		}
	}
	c.AddEval(n)
	c.DistinctN(n)
	c.Set("sql_statement_failures_injected", n)
}
