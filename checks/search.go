package checks

import (
	"encoding/json"
	"fmt"
	"os"
	"os/exec"
	"path/filepath"
	"sort"
	"strconv"
	"strings"
	"sync"

	"verif/internal/core"
	"verif/internal/sessmc"
)

// searchSpec describes one Engine-A exploration; variantDefs rebuilds it from (variant, config) so
// that a replay file needs only names.
type searchSpec struct {
	cfg        sessmc.Config
	alphabet   []*sessmc.Event
	prefix     []*sessmc.Event
	mons       func() []sessmc.Monitor
	depth      int
	relative   bool
	extra      func(w *sessmc.World, e *sessmc.Event) bool
	stateCheck func(w *sessmc.World, mons []sessmc.Monitor) (string, string)
	variant    string
	maxStates  int
	conform    int // number of frontier traces to offer to the run-loop conformance replay
}

var variantDefs = map[string]func(cfg sessmc.Config) searchSpec{}

type sessReplay struct {
	Variant string
	Cfg     sessmc.Config
	Names   []string
	Rule    string
	Probe   bool
	Trace   []string `json:",omitempty"`
}

func init() {
	core.RegisterReplay("sess/seq", func(data json.RawMessage) (bool, string, error) {
		var r sessReplay
		if err := json.Unmarshal(data, &r); err != nil {
			return false, "", err
		}
		def := variantDefs[r.Variant]
		if def == nil {
			return false, "", fmt.Errorf("unknown variant %q", r.Variant)
		}
		if r.Cfg.FileDir != "" {
			dir, cleanup := core.Scratch("replay")
			defer cleanup()
			r.Cfg.FileDir = dir
			if r.Cfg.SQLTemplate != "" {
				// the template database of the exploration is gone with its scratch space: make a new one
				tmpl, err := sqliteTemplateDB()
				if err != nil {
					return false, "", err
				}
				r.Cfg.SQLTemplate = dir + "/template.db"
				if err := os.WriteFile(r.Cfg.SQLTemplate, tmpl, 0o644); err != nil {
					return false, "", err
				}
			}
		}
		sp := def(r.Cfg)
		mons := sp.mons()
		rule, what, _, w, err := sessmc.ReplayNamesWorld(r.Cfg, sp.prefix, sp.alphabet, mons, r.Names)
		if err != nil {
			return false, "", err
		}
		defer w.Close()
		if rule == "" && r.Probe && sp.stateCheck != nil {
			rule, what = sp.stateCheck(w, mons)
		}
		return rule != "", rule + ": " + what, nil
	})
}

func runSearch(c *core.Ctx, sp searchSpec) *sessmc.Explorer {
	x := &sessmc.Explorer{Cfg: sp.cfg, Alphabet: sp.alphabet, Prefix: sp.prefix, Monitors: sp.mons, MaxDepth: sp.depth,
		Relative: sp.relative, Stop: c.Expired, ExtraEnabled: sp.extra, StateCheck: sp.stateCheck, MaxStates: sp.maxStates}
	if err := x.Run(); err != nil {
		c.EngineError(err.Error())
		return x
	}
	c.AddStates(x.States)
	c.AddTransitions(x.Transitions)
	c.AddEval(x.Transitions)
	c.DistinctN(x.States)
	c.AddCounter("distinct_transition_observation_shapes", x.ObsLogs)
	if x.Capped {
		c.Cap(fmt.Sprintf("variant %s config %s: search stopped before depth %d (completed %d)", sp.variant, sp.cfg, sp.depth, x.DepthDone))
	}
	for _, v := range x.Violations {
		c.Violation(v.Rule+" cfg="+v.Cfg.String(), fmt.Sprintf("%s | path=%v", v.What, v.Path), "sess/seq",
			sessReplay{Variant: sp.variant, Cfg: v.Cfg, Names: v.Path, Rule: v.Rule, Probe: v.Probe, Trace: v.Trace})
	}
	if sp.conform > 0 {
		n := sp.conform
		if m, err := strconv.Atoi(os.Getenv("VERIF_CONFORM_MULT")); err == nil && m > 1 {
			n *= m // (development aid: offer many more traces to the run-loop replay)
		}
		collectConformance(x, sp, n)
	}
	for _, p := range x.SamplePaths {
		if c.NumSamples() < 8 {
			c.Sample(map[string]any{"variant": sp.variant, "config": sp.cfg.String(), "path": p})
		}
	}
	return x
}

// ---- conformance: replay explored traces through the real run() loop (see conform_test.go) ----

type conformTrace struct {
	Variant string
	Cfg     sessmc.Config
	Names   []string
}

var (
	conformMu     sync.Mutex
	conformTraces []conformTrace
)

// collectConformance keeps up to n evenly spaced paths of an explorer's last frontier.
func collectConformance(x *sessmc.Explorer, sp searchSpec, n int) {
	if len(x.Frontier) == 0 {
		return
	}
	step := len(x.Frontier)/n + 1
	// the parallel search leaves the frontier in an order that varies from run to run: sort it, so that the same
	// traces are offered every time
	sort.Slice(x.Frontier, func(a, b int) bool {
		p, q := x.Frontier[a], x.Frontier[b]
		for i := 0; i < len(p) && i < len(q); i++ {
			if p[i] != q[i] {
				return p[i] < q[i]
			}
		}
		return len(p) < len(q)
	})
	conformMu.Lock()
	defer conformMu.Unlock()
	for i := 0; i < len(x.Frontier); i += step {
		names := []string{}
		for _, e := range sp.prefix {
			names = append(names, "prefix:"+e.Name)
		}
		for _, ai := range x.Frontier[i] {
			names = append(names, sp.alphabet[ai].Name)
		}
		conformTraces = append(conformTraces, conformTrace{Variant: sp.variant, Cfg: sp.cfg, Names: names})
	}
}

// runConformance replays the collected traces with the second toolchain (testing/synctest needs go >= 1.25).
func runConformance(c *core.Ctx) {
	conformMu.Lock()
	items := conformTraces
	conformTraces = nil
	conformMu.Unlock()
	if len(items) == 0 {
		return
	}
	dir, cleanup := core.Scratch("conform")
	defer cleanup()
	in, out := filepath.Join(dir, "in.json"), filepath.Join(dir, "out.json")
	b, _ := json.Marshal(items)
	if err := os.WriteFile(in, b, 0o644); err != nil {
		c.EngineError(err.Error())
		return
	}
	cmd := exec.Command("go1.26.8", "test", "-tags", "verif conform", "-run", "^TestConform$", "-count=1", "-vet=off", "./checks")
	cmd.Dir = core.VerifDir
	cmd.Env = append(os.Environ(), "GOFLAGS=-mod=mod", "GOPROXY=off", "GOSUMDB=off", "GOTOOLCHAIN=local", "CGO_ENABLED=1", "CONFORM_IN="+in, "CONFORM_OUT="+out)
	log, err := cmd.CombinedOutput()
	ob, rerr := os.ReadFile(out)
	if rerr != nil {
		c.Set("conformance", "not run: "+strings.TrimSpace(lastLines(string(log), 3))+fmt.Sprint(err))
		return
	}
	var res struct {
		Validated  int      `json:"validated"`
		Skipped    int      `json:"skipped"`
		Events     int      `json:"events_replayed"`
		Mismatches []string `json:"mismatches"`
	}
	json.Unmarshal(ob, &res)
	c.AddTraces(int64(res.Validated))
	c.Set("conformance_traces_offered", len(items))
	c.Set("conformance_traces_not_replayable_in_loop_mode", res.Skipped)
	c.Set("conformance_events_replayed", res.Events)
	for i, m := range res.Mismatches {
		if i < 3 {
			c.EngineError("run-loop conformance mismatch (the synchronous driver does not reproduce the real loop): " + m)
		}
	}
}

func lastLines(s string, n int) string {
	ls := strings.Split(strings.TrimSpace(s), "\n")
	if len(ls) > n {
		ls = ls[len(ls)-n:]
	}
	return strings.Join(ls, " | ")
}
