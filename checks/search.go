package checks

import (
	"encoding/json"
	"fmt"

	"verif/internal/core"
	"verif/internal/sessmc"
)

// searchSpec describes one Engine-A exploration; variantDefs rebuilds it from (variant, config) so
// that a replay file needs only names.
type searchSpec struct {
	cfg        sessmc.Config
	alphabet   []*sessmc.Event
	prefix     []*sessmc.Event
	mons       func() []sessmc.Monitor
	depth      int
	relative   bool
	extra      func(w *sessmc.World, e *sessmc.Event) bool
	stateCheck func(w *sessmc.World, mons []sessmc.Monitor) (string, string)
	variant    string
	maxStates  int
}

var variantDefs = map[string]func(cfg sessmc.Config) searchSpec{}

type sessReplay struct {
	Variant string
	Cfg     sessmc.Config
	Names   []string
	Rule    string
	Probe   bool
	Trace   []string `json:",omitempty"`
}

func init() {
	core.RegisterReplay("sess/seq", func(data json.RawMessage) (bool, string, error) {
		var r sessReplay
		if err := json.Unmarshal(data, &r); err != nil {
			return false, "", err
		}
		def := variantDefs[r.Variant]
		if def == nil {
			return false, "", fmt.Errorf("unknown variant %q", r.Variant)
		}
		if r.Cfg.FileDir != "" {
			dir, cleanup := core.Scratch("replay")
			defer cleanup()
			r.Cfg.FileDir = dir
		}
		sp := def(r.Cfg)
		mons := sp.mons()
		rule, what, _, w, err := sessmc.ReplayNamesWorld(r.Cfg, sp.prefix, sp.alphabet, mons, r.Names)
		if err != nil {
			return false, "", err
		}
		defer w.Close()
		if rule == "" && r.Probe && sp.stateCheck != nil {
			rule, what = sp.stateCheck(w, mons)
		}
		return rule != "", rule + ": " + what, nil
	})
}

func runSearch(c *core.Ctx, sp searchSpec) *sessmc.Explorer {
	x := &sessmc.Explorer{Cfg: sp.cfg, Alphabet: sp.alphabet, Prefix: sp.prefix, Monitors: sp.mons, MaxDepth: sp.depth,
		Relative: sp.relative, Stop: c.Expired, ExtraEnabled: sp.extra, StateCheck: sp.stateCheck, MaxStates: sp.maxStates}
	if err := x.Run(); err != nil {
		c.EngineError(err.Error())
		return x
	}
	c.AddStates(x.States)
	c.AddTransitions(x.Transitions)
	c.AddEval(x.Transitions)
	c.DistinctN(x.States)
	c.AddCounter("distinct_transition_observation_shapes", x.ObsLogs)
	if x.Capped {
		c.Cap(fmt.Sprintf("variant %s config %s: search stopped before depth %d (completed %d)", sp.variant, sp.cfg, sp.depth, x.DepthDone))
	}
	for _, v := range x.Violations {
		c.Violation(v.Rule+" cfg="+v.Cfg.String(), fmt.Sprintf("%s | path=%v", v.What, v.Path), "sess/seq",
			sessReplay{Variant: sp.variant, Cfg: v.Cfg, Names: v.Path, Rule: v.Rule, Probe: v.Probe, Trace: v.Trace})
	}
	for _, p := range x.SamplePaths {
		if c.NumSamples() < 8 {
			c.Sample(map[string]any{"variant": sp.variant, "config": sp.cfg.String(), "path": p})
		}
	}
	return x
}
