package checks

import (
	"bytes"
	"encoding/hex"
	"encoding/json"
	"fmt"
	"os"
	"runtime"
	"sort"
	"strconv"
	"strings"
	"sync"
	"sync/atomic"
	"time"

	"github.com/quickfixgo/quickfix"
	"github.com/quickfixgo/quickfix/datadictionary"

	"verif/internal/core"
	"verif/internal/ddwalk"
	"verif/internal/fixscan"
)

// ---------- C13: repeating groups survive the trip through the wire ----------

// gTmpl is a group template: ordered members; a member with Sub != nil is a nested group.
type gTmpl struct {
	Tag     int     `json:"tag"`
	Members []gTmpl `json:"members,omitempty"` // for a group: its members in order (first = delimiter)
	IsGroup bool    `json:"group,omitempty"`
}

// gData is what is written: entries of a group; each entry maps member tag -> value or nested group data.
type gEntry struct {
	Vals map[int]string   `json:"vals"`
	Subs map[int][]gEntry `json:"subs,omitempty"`
}

type c13Case struct {
	Dict    string      `json:"dict,omitempty"` // "" = generated template, no dictionary available
	MsgType string      `json:"msgtype"`
	Begin   string      `json:"begin"`
	Group   gTmpl       `json:"group"`
	Entries []gEntry    `json:"entries"`
	Before  [][2]string `json:"before,omitempty"`  // body fields with smaller tags
	After   [][2]string `json:"after,omitempty"`   // body fields with larger tags
	Mode    int         `json:"mode"`              // 0 no dictionary, 1 defining dictionary, 2 transport + defining dictionary
	Rewrite bool        `json:"rewrite,omitempty"` // every group is set twice (first with one entry less), as an application building it up would
	Pre     string      `json:"pre,omitempty"`     // hex of a message of another type (defining the same group tag with more members) parsed into the same Message object before
	Wrapped bool        `json:"wrapped,omitempty"` // the reading template declares its nested groups through wrapper types (struct{ *RepeatingGroup }), the shape generated code uses
	Shared  bool        `json:"shared,omitempty"`  // one template object tree for writing and reading: the nested group objects inside the template are the ones the application fills (first entry of each level)
}

// tnode: a nested group object that lives inside a template, with its own template and nested objects.
type tnode struct {
	rg   *quickfix.RepeatingGroup
	kids map[int]*tnode
}

// sharedTemplate builds one template object tree and returns handles to the nested group objects in it.
func (t gTmpl) sharedTemplate() (quickfix.GroupTemplate, map[int]*tnode) {
	var out quickfix.GroupTemplate
	kids := map[int]*tnode{}
	for _, m := range t.Members {
		if m.IsGroup {
			sub, subKids := m.sharedTemplate()
			rg := quickfix.NewRepeatingGroup(quickfix.Tag(m.Tag), sub)
			kids[m.Tag] = &tnode{rg: rg, kids: subKids}
			out = append(out, rg)
		} else {
			out = append(out, quickfix.GroupElement(quickfix.Tag(m.Tag)))
		}
	}
	return out, kids
}

// fillShared adds the entries to g; the nested groups of the first entry are built in the template's own objects.
func (t gTmpl) fillShared(g *quickfix.RepeatingGroup, kids map[int]*tnode, entries []gEntry) {
	for i, e := range entries {
		ge := g.Add()
		for _, m := range t.Members {
			if m.IsGroup {
				if sub, ok := e.Subs[m.Tag]; ok {
					if i == 0 {
						k := kids[m.Tag]
						m.fillShared(k.rg, k.kids, sub)
						ge.SetGroup(k.rg)
					} else {
						ge.SetGroup(m.write(sub, false))
					}
				}
			} else if v, ok := e.Vals[m.Tag]; ok {
				ge.SetString(quickfix.Tag(m.Tag), v)
			}
		}
	}
}

// restyle prefixes every value (values beginning with or containing the key/value separator).
func restyle(entries []gEntry, prefix string) []gEntry {
	var out []gEntry
	for _, e := range entries {
		n := gEntry{Vals: map[int]string{}, Subs: map[int][]gEntry{}}
		for k, v := range e.Vals {
			n.Vals[k] = prefix + v
		}
		for k, v := range e.Subs {
			n.Subs[k] = restyle(v, prefix)
		}
		out = append(out, n)
	}
	return out
}

// wrapGroup: what generated code puts into templates for a nested group.
type wrapGroup struct{ *quickfix.RepeatingGroup }

// templateW: the template with its nested groups declared through wrapper types.
func (t gTmpl) templateW() quickfix.GroupTemplate {
	var out quickfix.GroupTemplate
	for _, m := range t.Members {
		if m.IsGroup {
			out = append(out, wrapGroup{quickfix.NewRepeatingGroup(quickfix.Tag(m.Tag), m.templateW())})
		} else {
			out = append(out, quickfix.GroupElement(quickfix.Tag(m.Tag)))
		}
	}
	return out
}

func (t gTmpl) template() quickfix.GroupTemplate {
	var out quickfix.GroupTemplate
	for _, m := range t.Members {
		if m.IsGroup {
			out = append(out, quickfix.NewRepeatingGroup(quickfix.Tag(m.Tag), m.template()))
		} else {
			out = append(out, quickfix.GroupElement(quickfix.Tag(m.Tag)))
		}
	}
	return out
}

func (t gTmpl) write(entries []gEntry, rewrite bool) *quickfix.RepeatingGroup {
	g := quickfix.NewRepeatingGroup(quickfix.Tag(t.Tag), t.template())
	for _, e := range entries {
		ge := g.Add()
		for _, m := range t.Members {
			if m.IsGroup {
				if sub, ok := e.Subs[m.Tag]; ok {
					if rewrite && len(sub) > 0 {
						ge.SetGroup(m.write(sub[:len(sub)-1], false))
					}
					ge.SetGroup(m.write(sub, rewrite))
				}
			} else if v, ok := e.Vals[m.Tag]; ok {
				ge.SetString(quickfix.Tag(m.Tag), v)
			}
		}
	}
	return g
}

// compare reads the group back and compares with what was written.
func (t gTmpl) compare(path string, g *quickfix.RepeatingGroup, entries []gEntry) (string, string) {
	if g.Len() != len(entries) {
		return "C13/N-entry-count", fmt.Sprintf("%s: %d entries read back, %d written", path, g.Len(), len(entries))
	}
	for i, e := range entries {
		ge := g.Get(i)
		for _, m := range t.Members {
			p := fmt.Sprintf("%s[%d].%d", path, i, m.Tag)
			if m.IsGroup {
				sub, ok := e.Subs[m.Tag]
				if !ok {
					if ge.Has(quickfix.Tag(m.Tag)) {
						return "C13/V-unwritten-nested-group-present", p
					}
					continue
				}
				rg := quickfix.NewRepeatingGroup(quickfix.Tag(m.Tag), m.template())
				if err := ge.GetGroup(rg); err != nil {
					return "C13/V-nested-group-unreadable", fmt.Sprintf("%s: %v", p, err)
				}
				if r, w := m.compare(p, rg, sub); r != "" {
					return r, w
				}
				continue
			}
			v, ok := e.Vals[m.Tag]
			got, err := ge.GetString(quickfix.Tag(m.Tag))
			if !ok {
				if err == nil {
					return "C13/V-unwritten-member-present", fmt.Sprintf("%s = %q", p, got)
				}
				continue
			}
			if err != nil || got != v {
				return "C13/V-member-value", fmt.Sprintf("%s read back as %q (%v), written %q", p, got, err, v)
			}
		}
	}
	return "", ""
}

var (
	c13Once  sync.Once
	c13Dicts map[string]*datadictionary.DataDictionary
	c13Walks map[string]*ddwalk.Spec
	c13Err   error
)

func c13Load() error {
	c13Once.Do(func() {
		c13Dicts = map[string]*datadictionary.DataDictionary{}
		c13Walks = map[string]*ddwalk.Spec{}
		for _, n := range c09DictNames {
			b, err := os.ReadFile(specDir + n + ".xml")
			if err != nil {
				c13Err = err
				return
			}
			if c13Dicts[n], c13Err = datadictionary.ParseSrc(bytes.NewReader(b)); c13Err != nil {
				return
			}
			if c13Walks[n], c13Err = ddwalk.Parse(bytes.NewReader(b)); c13Err != nil {
				return
			}
		}
	})
	return c13Err
}

func c13Eval(cs c13Case) (rule, what string) {
	if err := c13Load(); err != nil {
		return "C13/engine", err.Error()
	}
	pan := safely(func() { rule, what = c13EvalInner(cs) })
	if pan != "" {
		return "C13/panic", pan
	}
	return
}

func c13EvalInner(cs c13Case) (string, string) {
	msg := quickfix.NewMessage()
	msg.Header.SetString(8, cs.Begin).SetString(35, cs.MsgType).SetString(49, "S").SetString(56, "T").SetInt(34, 2).SetString(52, "20240101-00:00:00")
	for _, f := range append(append([][2]string{}, cs.Before...), cs.After...) {
		t, _ := strconv.Atoi(f[0])
		msg.Body.SetString(quickfix.Tag(t), f[1])
	}
	if cs.Rewrite && len(cs.Entries) > 0 {
		msg.Body.SetGroup(cs.Group.write(cs.Entries[:len(cs.Entries)-1], false))
	}
	var sharedTpl quickfix.GroupTemplate
	if cs.Shared {
		var kids map[int]*tnode
		sharedTpl, kids = cs.Group.sharedTemplate()
		g := quickfix.NewRepeatingGroup(quickfix.Tag(cs.Group.Tag), sharedTpl)
		cs.Group.fillShared(g, kids, cs.Entries)
		msg.Body.SetGroup(g)
	} else {
		msg.Body.SetGroup(cs.Group.write(cs.Entries, cs.Rewrite))
	}
	wire := []byte(msg.String())
	if sm, err := fixscan.Scan(wire); err != nil {
		return "C13/W-unscannable", err.Error()
	} else if fr := sm.CheckFraming(); fr != "" {
		return "C13/W-framing", fr + ": " + fixscan.Pretty(wire)
	}
	parsed := quickfix.NewMessage()
	var err error
	if cs.Pre != "" {
		// one Message object parses one stored message after the other when a resend is answered
		if pre, e := hex.DecodeString(cs.Pre); e == nil {
			switch cs.Mode {
			case 1:
				_ = quickfix.ParseMessageWithDataDictionary(parsed, bytes.NewBuffer(pre), nil, c13Dicts[cs.Dict])
			case 2:
				_ = quickfix.ParseMessageWithDataDictionary(parsed, bytes.NewBuffer(pre), c13Dicts["FIXT11"], c13Dicts[cs.Dict])
			case 3:
				_ = quickfix.ParseMessageWithDataDictionary(parsed, bytes.NewBuffer(pre), c13Dicts[cs.Dict], c13Dicts[cs.Dict])
			}
		}
	}
	switch cs.Mode {
	case 0:
		err = quickfix.ParseMessage(parsed, bytes.NewBuffer(wire))
	case 1:
		err = quickfix.ParseMessageWithDataDictionary(parsed, bytes.NewBuffer(wire), nil, c13Dicts[cs.Dict])
	case 2:
		err = quickfix.ParseMessageWithDataDictionary(parsed, bytes.NewBuffer(wire), c13Dicts["FIXT11"], c13Dicts[cs.Dict])
	case 3: // the defining dictionary passed in both positions (as for a FIX 4.x session; also what a caller with one dictionary does)
		err = quickfix.ParseMessageWithDataDictionary(parsed, bytes.NewBuffer(wire), c13Dicts[cs.Dict], c13Dicts[cs.Dict])
	}
	ctx := fmt.Sprintf("%s/%s group %d mode %d: %s", cs.Dict, cs.MsgType, cs.Group.Tag, cs.Mode, fixscan.Pretty(wire))
	if err != nil {
		return "C13/P-parse-error", fmt.Sprintf("%v | %s", err, ctx)
	}
	rg := quickfix.NewRepeatingGroup(quickfix.Tag(cs.Group.Tag), cs.Group.template())
	if cs.Shared {
		rg = quickfix.NewRepeatingGroup(quickfix.Tag(cs.Group.Tag), sharedTpl)
		ctx += " (one template object tree used for writing and reading)"
	}
	if cs.Wrapped {
		rg = quickfix.NewRepeatingGroup(quickfix.Tag(cs.Group.Tag), cs.Group.templateW())
		ctx += " (nested groups declared through wrapper types in the reading template)"
	}
	if err := parsed.Body.GetGroup(rg); err != nil {
		return "C13/R-group-unreadable", fmt.Sprintf("%v | %s", err, ctx)
	}
	if r, w := cs.Group.compare(strconv.Itoa(cs.Group.Tag), rg, cs.Entries); r != "" {
		return r, w + " | " + ctx
	}
	for _, f := range cs.Before {
		t, _ := strconv.Atoi(f[0])
		if v, err := parsed.Body.GetString(quickfix.Tag(t)); err != nil || v != f[1] {
			return "C13/B-field-before-group-lost", fmt.Sprintf("body field %s=%s before the group reads %q (%v) | %s", f[0], f[1], v, err, ctx)
		}
	}
	for _, f := range cs.After {
		t, _ := strconv.Atoi(f[0])
		if v, err := parsed.Body.GetString(quickfix.Tag(t)); err != nil || v != f[1] {
			nested := "flat"
			for _, m := range cs.Group.Members {
				if m.IsGroup {
					nested = "nested"
				}
			}
			return fmt.Sprintf("C13/B-field-after-group-lost mode=%d group=%s", cs.Mode, nested), fmt.Sprintf("body field %s=%s after the group is not found in the body (%q, %v) | %s", f[0], f[1], v, err, ctx)
		}
	}
	// second trip (dictionary modes): the message that was received is enriched — the group it carries is written again,
	// one entry longer — and sent on; the next reader finds the longer group and the fields behind it
	if cs.Mode != 0 && len(cs.Entries) > 0 && !cs.Shared && !cs.Wrapped {
		longer := append(append(cs.Entries[:0:0], cs.Entries...), cs.Entries[0])
		parsed.Body.SetGroup(cs.Group.write(longer, false))
		wire2 := append([]byte{}, quickfix.VerifBuild(parsed)...)
		ctx2 := fmt.Sprintf("%s/%s group %d mode %d, received as %s, group rewritten one entry longer and built again: %s", cs.Dict, cs.MsgType, cs.Group.Tag, cs.Mode, fixscan.Pretty(wire), fixscan.Pretty(wire2))
		if sm, err := fixscan.Scan(wire2); err != nil {
			return "C13/W2-unscannable", err.Error() + " | " + ctx2
		} else if fr := sm.CheckFraming(); fr != "" {
			return "C13/W2-framing", fr + " | " + ctx2
		}
		again := quickfix.NewMessage()
		switch cs.Mode {
		case 1:
			err = quickfix.ParseMessageWithDataDictionary(again, bytes.NewBuffer(wire2), nil, c13Dicts[cs.Dict])
		case 2:
			err = quickfix.ParseMessageWithDataDictionary(again, bytes.NewBuffer(wire2), c13Dicts["FIXT11"], c13Dicts[cs.Dict])
		case 3:
			err = quickfix.ParseMessageWithDataDictionary(again, bytes.NewBuffer(wire2), c13Dicts[cs.Dict], c13Dicts[cs.Dict])
		}
		if err != nil {
			return "C13/P2-parse-error", fmt.Sprintf("%v | %s", err, ctx2)
		}
		rg2 := quickfix.NewRepeatingGroup(quickfix.Tag(cs.Group.Tag), cs.Group.template())
		if err := again.Body.GetGroup(rg2); err != nil {
			return "C13/R2-group-unreadable", fmt.Sprintf("%v | %s", err, ctx2)
		}
		if r, w := cs.Group.compare(strconv.Itoa(cs.Group.Tag), rg2, longer); r != "" {
			return strings.Replace(r, "C13/", "C13/second-trip-", 1), w + " | " + ctx2
		}
		for _, f := range append(append([][2]string{}, cs.Before...), cs.After...) {
			t, _ := strconv.Atoi(f[0])
			if v, err := again.Body.GetString(quickfix.Tag(t)); err != nil || v != f[1] {
				return fmt.Sprintf("C13/B2-field-lost-on-second-trip mode=%d", cs.Mode), fmt.Sprintf("body field %s=%s is not found in the body (%q, %v) | %s", f[0], f[1], v, err, ctx2)
			}
		}
	}
	return "", ""
}

func init() {
	register("C13", core.LevelExploration, runC13)
	core.RegisterReplay("C13/case", func(data json.RawMessage) (bool, string, error) {
		var cs c13Case
		if err := json.Unmarshal(data, &cs); err != nil {
			return false, "", err
		}
		r, w := c13Eval(cs)
		return r != "", r + ": " + w, nil
	})
}

func tmplFromMember(m ddwalk.Member, depth int) gTmpl {
	t := gTmpl{Tag: m.Tag, IsGroup: m.IsGroup}
	seen := map[int]bool{}
	for _, x := range m.Group {
		if seen[x.Tag] {
			continue
		}
		seen[x.Tag] = true
		if x.IsGroup {
			if depth >= 3 {
				continue
			}
			t.Members = append(t.Members, tmplFromMember(x, depth+1))
		} else {
			t.Members = append(t.Members, gTmpl{Tag: x.Tag})
		}
	}
	return t
}

// fill builds entries: n entries at this level, nested groups get nn entries; optional members (all but the
// delimiter) present iff opt.
func fill(t gTmpl, n, nn int, opt bool, salt string) []gEntry {
	var out []gEntry
	for i := 0; i < n; i++ {
		e := gEntry{Vals: map[int]string{}, Subs: map[int][]gEntry{}}
		for j, m := range t.Members {
			switch {
			case m.IsGroup:
				k := nn
				if j == 0 && k == 0 {
					k = 1 // a nested group in delimiter position has to be present
				}
				if k > 0 && len(m.Members) > 0 {
					e.Subs[m.Tag] = fill(m, k, 1, opt, fmt.Sprintf("%s%d.", salt, i))
				}
			case j == 0 || opt:
				e.Vals[m.Tag] = fmt.Sprintf("v%s%d_%d", salt, i, m.Tag)
			}
		}
		out = append(out, e)
	}
	return out
}

func runC13(c *core.Ctx) {
	quick := c.Quick()
	if quick {
		c.SetDeadline(5 * time.Minute)
	} else {
		c.SetDeadline(40 * time.Minute)
	}
	if err := c13Load(); err != nil {
		c.EngineError(err.Error())
		return
	}
	c.SetRule("(a) generated templates up to depth 3 with <=3 members per level, optional members present/absent, 0-2 entries per level, the group first/middle/last in the body, followed by a parent-group member / a body field / the trailer, parsed without dictionary; (b) every group of every message of every shipped dictionary (independent XML walk): 1 and 2 entries, nested groups with 0 and 1 entries, optional members absent/present, with the nearest lower and higher body fields of that message, parsed without dictionary, with the defining dictionary, (FIX 5.x) with transport + defining dictionary, and with the defining dictionary in both positions; written through the API, read back with the same template — also with one template object tree whose nested group objects the application itself filled (first entry of each level), and with member values that begin with or contain '='")
	c.Assume("values are opaque strings (no validation involved)", "the first member of a group is its delimiter and always present", "group members declared twice in one group are used once")
	jobs := make(chan c13Case, 4096)
	var evals int64
	var wg sync.WaitGroup
	for wk := 0; wk < runtime.NumCPU(); wk++ {
		wg.Add(1)
		go func() {
			defer wg.Done()
			for cs := range jobs {
				r, w := c13Eval(cs)
				atomic.AddInt64(&evals, 1)
				if r != "" {
					c.Violation(r, w, "C13/case", cs)
				}
			}
		}()
	}
	// (a) generated templates
	leaf := func(tag int) gTmpl { return gTmpl{Tag: tag} }
	var shapes []gTmpl
	l3 := gTmpl{Tag: 9300, IsGroup: true, Members: []gTmpl{leaf(9301), leaf(9302)}}
	for _, withL3 := range []bool{false, true} {
		for _, l2pos := range []int{-1, 1, 2} { // nested group absent / in the middle / last
			l2 := gTmpl{Tag: 9200, IsGroup: true, Members: []gTmpl{leaf(9201), leaf(9202)}}
			if withL3 {
				l2.Members = []gTmpl{leaf(9201), l3, leaf(9202)}
			}
			top := gTmpl{Tag: 9100, IsGroup: true}
			switch l2pos {
			case -1:
				top.Members = []gTmpl{leaf(9101), leaf(9102), leaf(9103)}
			case 1:
				top.Members = []gTmpl{leaf(9101), l2, leaf(9102)} // a parent-group member follows the nested group
			case 2:
				top.Members = []gTmpl{leaf(9101), leaf(9102), l2}
			}
			shapes = append(shapes, top)
		}
	}
	for _, sh := range shapes {
		for n := 0; n <= 2; n++ {
			for nn := 0; nn <= 2; nn++ {
				for _, opt := range []bool{false, true} {
					for pos := 0; pos < 4; pos++ { // group alone / first / middle / last in the body
						cs := c13Case{MsgType: "D", Begin: "FIX.4.4", Group: sh, Entries: fill(sh, n, nn, opt, ""), Mode: 0}
						if pos == 1 || pos == 2 {
							cs.After = [][2]string{{"9999", "after"}}
						}
						if pos == 2 || pos == 3 {
							cs.Before = [][2]string{{"1000", "before"}}
						}
						jobs <- cs
						cs.Rewrite = true
						jobs <- cs
						cs.Rewrite = false
						cs.Shared = true
						jobs <- cs
						cs.Shared = false
						for _, pre := range []string{"=", "x="} {
							cs.Entries = restyle(fill(sh, n, nn, opt, ""), pre)
							jobs <- cs
						}
					}
				}
			}
		}
	}
	// (b) every group of every message of every shipped dictionary
	begin := map[string]string{"FIX40": "FIX.4.0", "FIX41": "FIX.4.1", "FIX42": "FIX.4.2", "FIX43": "FIX.4.3", "FIX44": "FIX.4.4", "FIX50": "FIXT.1.1", "FIX50SP1": "FIXT.1.1", "FIX50SP2": "FIXT.1.1", "FIXT11": "FIXT.1.1"}
	groupsSeen := 0
	for _, dn := range c09DictNames {
		ws := c13Walks[dn]
		modes := []int{0, 1, 3}
		if strings.HasPrefix(dn, "FIX50") {
			modes = []int{0, 1, 2, 3}
		}
		// the widest definition of each top-level group tag among the messages of this dictionary
		type wideDef struct {
			msgType string
			t       gTmpl
			n       int
		}
		widest := map[int]wideDef{}
		for _, m2 := range ws.Messages {
			for _, x2 := range m2.Top {
				if x2.IsGroup && len(x2.Group) > 0 {
					if w, ok := widest[x2.Tag]; !ok || len(x2.Group) > w.n {
						widest[x2.Tag] = wideDef{m2.MsgType, tmplFromMember(x2, 1), len(x2.Group)}
					}
				}
			}
		}
		for mi, m := range ws.Messages {
			if false && mi < 0 {
				continue
			}
			var scalars []int
			for _, x := range m.Top {
				if !x.IsGroup {
					scalars = append(scalars, x.Tag)
				}
			}
			sort.Ints(scalars)
			for _, x := range m.Top {
				if !x.IsGroup || len(x.Group) == 0 {
					continue
				}
				groupsSeen++
				t := tmplFromMember(x, 1)
				var before, after [][2]string
				for _, s := range scalars {
					if s < x.Tag {
						before = [][2]string{{strconv.Itoa(s), "b"}}
					}
					if s > x.Tag && after == nil {
						after = [][2]string{{strconv.Itoa(s), "a"}}
					}
				}
				// the same Message object has parsed a message of another type before, whose definition of this
				// group tag has more members
				if w, ok := widest[x.Tag]; ok && w.msgType != m.MsgType && w.n > len(x.Group) {
					pm := quickfix.NewMessage()
					pm.Header.SetString(8, begin[dn]).SetString(35, w.msgType).SetString(49, "S").SetString(56, "T").SetInt(34, 2).SetString(52, "20240101-00:00:00")
					pm.Body.SetGroup(w.t.write(fill(w.t, 1, 1, true, ""), false))
					pre := hex.EncodeToString([]byte(pm.String()))
					for _, mode := range modes {
						if mode == 0 {
							continue
						}
						jobs <- c13Case{Dict: dn, MsgType: m.MsgType, Begin: begin[dn], Group: t, Entries: fill(t, 2, 1, true, ""), Before: before, After: after, Mode: mode, Pre: pre}
					}
				}
				for _, n := range []int{1, 2} {
					for _, nn := range []int{0, 1} {
						for _, opt := range []bool{false, true} {
							for _, mode := range modes {
								jobs <- c13Case{Dict: dn, MsgType: m.MsgType, Begin: begin[dn], Group: t, Entries: fill(t, n, nn, opt, ""), Before: before, After: after, Mode: mode, Rewrite: n == 2 && opt}
								if nn == 1 {
									jobs <- c13Case{Dict: dn, MsgType: m.MsgType, Begin: begin[dn], Group: t, Entries: fill(t, n, nn, opt, ""), Before: before, After: after, Mode: mode, Shared: true}
									jobs <- c13Case{Dict: dn, MsgType: m.MsgType, Begin: begin[dn], Group: t, Entries: fill(t, n, nn, opt, ""), Before: before, After: after, Mode: mode, Wrapped: true}
								}
								if n == 1 && nn == 1 && opt {
									for _, pre := range []string{"=", "x="} {
										jobs <- c13Case{Dict: dn, MsgType: m.MsgType, Begin: begin[dn], Group: t, Entries: restyle(fill(t, n, nn, opt, ""), pre), Before: before, After: after, Mode: mode}
									}
								}
							}
						}
					}
				}
			}
		}
	}
	close(jobs)
	wg.Wait()
	c.AddEval(evals)
	c.DistinctN(evals)
	c.Set("shipped_groups_exercised", groupsSeen)
	c.Sample(map[string]any{"dict": "FIX44", "msgtype": "D", "group": 453, "entries": 2, "nested": "802 x1", "after": "field 460..", "mode": 1})
}
