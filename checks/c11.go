package checks

import (
	"bytes"
	"encoding/hex"
	"encoding/json"
	"fmt"
	"os"
	"runtime"
	"strconv"
	"strings"
	"sync"
	"sync/atomic"
	"time"

	"github.com/quickfixgo/quickfix"
	"github.com/quickfixgo/quickfix/datadictionary"

	"verif/internal/core"
	"verif/internal/fixscan"
)

// ---------- C11: parsing exposes exactly what is on the wire; mis-framed messages are rejected ----------

const (
	custHdr = 5001 // header field defined only by the customised transport dictionary
	custTrl = 5050 // trailer field defined only by the customised transport dictionary
)

type c11Dicts struct {
	app44, app50, transport *datadictionary.DataDictionary
	custApp                 *datadictionary.DataDictionary // FIX44 with a custom header and a custom trailer field declared
}

// fingerprint: the sizes of every message's field tables (parsing must leave the dictionaries as loaded).
func (d *c11Dicts) fingerprint() int {
	n := 0
	for _, dd := range []*datadictionary.DataDictionary{d.app44, d.app50, d.transport, d.custApp} {
		for _, m := range dd.Messages {
			n += len(m.Fields) + len(m.Tags) + len(m.RequiredTags)
		}
		n += len(dd.FieldTypeByTag) + len(dd.Header.Fields) + len(dd.Trailer.Fields)
	}
	return n
}

var (
	c11Once sync.Once
	c11D    *c11Dicts
	c11Err  error
)

func c11Load() (*c11Dicts, error) {
	c11Once.Do(func() { c11D, c11Err = c11LoadFresh() })
	return c11D, c11Err
}

// c11LoadFresh loads a private set of dictionaries.
func c11LoadFresh() (c11D *c11Dicts, c11Err error) {
	func() {
		d := &c11Dicts{}
		if d.app44, c11Err = datadictionary.Parse(specDir + "FIX44.xml"); c11Err != nil {
			return
		}
		if d.app50, c11Err = datadictionary.Parse(specDir + "FIX50SP2.xml"); c11Err != nil {
			return
		}
		raw, err := os.ReadFile(specDir + "FIXT11.xml")
		if err != nil {
			c11Err = err
			return
		}
		s := string(raw)
		s = strings.Replace(s, "</header>", "<field name='CustHdr' required='N'/></header>", 1)
		s = strings.Replace(s, "<field name='CheckSum' required='Y'/>", "<field name='CustTrl' required='N'/><field name='CheckSum' required='Y'/>", 1)
		s = strings.Replace(s, "<fields>", "<fields><field number='5001' name='CustHdr' type='STRING'/><field number='5050' name='CustTrl' type='STRING'/>", 1)
		if d.transport, c11Err = datadictionary.ParseSrc(strings.NewReader(s)); c11Err != nil {
			return
		}
		raw44, err := os.ReadFile(specDir + "FIX44.xml")
		if err != nil {
			c11Err = err
			return
		}
		a := string(raw44)
		a = strings.Replace(a, "</header>", "<field name='CustHdr' required='N'/></header>", 1)
		a = strings.Replace(a, "<field name='CheckSum' required='Y'/>", "<field name='CustTrl' required='N'/><field name='CheckSum' required='Y'/>", 1)
		a = strings.Replace(a, "<fields>", "<fields><field number='5001' name='CustHdr' type='STRING'/><field number='5050' name='CustTrl' type='STRING'/>", 1)
		if d.custApp, c11Err = datadictionary.ParseSrc(strings.NewReader(a)); c11Err != nil {
			return
		}
		c11D = d
	}()
	return c11D, c11Err
}

type c11Case struct {
	Msg    string `json:"msg_hex"`
	Config int    `json:"config"` // 0 none, 1 app dictionary, 2 customised transport + app, 3 customised app dictionary alone
	Expect string `json:"expect"` // ok | error
	Note   string `json:"note,omitempty"`
	Reuse  int    `json:"reuse,omitempty"` // 0: parsed into a fresh Message; k>0: into a Message that first parsed c11Predecessors[k-1]
}

// c11Predecessors: messages a Message object has parsed before the case (a Message may be parsed into again;
// what the second parse exposes must not depend on the first): a long one with signature and custom trailer
// fields, a group and many body fields; one with XMLData whose content contains the field separator.
var c11Predecessors = [][]byte{
	fixscan.Build([]fixscan.Field{{8, "FIXT.1.1"}, {35, "D"}, {49, "A"}, {56, "B"}, {34, "7"}, {50, "S"}, {57, "T"}, {custHdr, "hh"}, {1, "acc"}, {11, "id"}, {453, "2"}, {448, "P1"}, {447, "D"}, {448, "P2"}, {447, "D"},
		{55, "SYM"}, {54, "1"}, {38, "100"}, {40, "2"}, {44, "1.5"}, {58, "text"}, {59, "0"}, {custTrl, "tt"}, {93, "4"}, {89, "ABCD"}}),
	fixscan.Build([]fixscan.Field{{8, "FIX.4.4"}, {35, "D"}, {49, "A"}, {212, "13"}, {213, "<a>\x01b=1\x01c</a>"}, {56, "B"}, {11, "id"}, {58, "t"}}),
}

func c11Section(tag, config int) int {
	if config == 2 {
		if tag == custHdr {
			return 0
		}
		if tag == custTrl {
			return 2
		}
	}
	if fixscan.IsHeaderTag(tag) {
		return 0
	}
	if fixscan.IsTrailerTag(tag) {
		return 2
	}
	return 1
}

// scanData is a scanner aware of the XMLData pair (212=len, 213=data of that many bytes).
func scanData(b []byte) ([]fixscan.Field, error) {
	var out []fixscan.Field
	i := 0
	dataLen := -1
	for i < len(b) {
		eq := bytes.IndexByte(b[i:], '=')
		if eq < 0 {
			return nil, fmt.Errorf("no = after offset %d", i)
		}
		tag, err := strconv.Atoi(string(b[i : i+eq]))
		if err != nil {
			return nil, err
		}
		vs := i + eq + 1
		var ve int
		if tag == 213 && dataLen >= 0 {
			ve = vs + dataLen
			if ve >= len(b) || b[ve] != 1 {
				return nil, fmt.Errorf("data field does not end with SOH")
			}
		} else {
			k := bytes.IndexByte(b[vs:], 1)
			if k < 0 {
				return nil, fmt.Errorf("no SOH")
			}
			ve = vs + k
		}
		out = append(out, fixscan.Field{Tag: tag, Value: string(b[vs:ve])})
		dataLen = -1
		if tag == 212 {
			dataLen, _ = strconv.Atoi(string(b[vs:ve]))
		}
		i = ve + 1
	}
	return out, nil
}

func c11ReuseTag(cs c11Case) string {
	if cs.Reuse > 0 {
		return " reused-message"
	}
	return ""
}

func c11ReuseText(cs c11Case) string {
	if cs.Reuse > 0 {
		return "; parsed into a Message that had parsed " + fixscan.Pretty(c11Predecessors[cs.Reuse-1]) + " before"
	}
	return ""
}

// c11Eval (replays): private dictionaries, so that a parse that alters them is seen.
func c11Eval(cs c11Case) (rule, what string) {
	d, err := c11LoadFresh()
	if err != nil {
		return "C11/engine", err.Error()
	}
	fp := d.fingerprint()
	rule, what = c11EvalWith(cs, d)
	if rule == "" && d.fingerprint() != fp {
		raw, _ := hex.DecodeString(cs.Msg)
		return "C11/D-dictionary-changed-by-parsing", fmt.Sprintf("parsing %s (config %d) altered the dictionary it was parsed with: later messages are read differently", fixscan.Pretty(raw), cs.Config)
	}
	return
}

func c11EvalWith(cs c11Case, d *c11Dicts) (rule, what string) {
	raw, _ := hex.DecodeString(cs.Msg)
	pan := safely(func() { rule, what = c11EvalInner(cs, raw, d) })
	if pan != "" {
		return "C11/panic", pan + ": " + fixscan.Pretty(raw)
	}
	return
}

func c11EvalInner(cs c11Case, raw []byte, d *c11Dicts) (string, string) {
	m := quickfix.NewMessage()
	if cs.Reuse > 0 {
		prev := append([]byte{}, c11Predecessors[cs.Reuse-1]...)
		switch cs.Config {
		case 0:
			_ = quickfix.ParseMessage(m, bytes.NewBuffer(prev))
		case 1:
			_ = quickfix.ParseMessageWithDataDictionary(m, bytes.NewBuffer(prev), nil, d.app44)
		case 2:
			_ = quickfix.ParseMessageWithDataDictionary(m, bytes.NewBuffer(prev), d.transport, d.app50)
		case 3:
			_ = quickfix.ParseMessageWithDataDictionary(m, bytes.NewBuffer(prev), nil, d.custApp)
		}
	}
	in := append([]byte{}, raw...)
	var err error
	switch cs.Config {
	case 0:
		err = quickfix.ParseMessage(m, bytes.NewBuffer(in))
	case 1:
		err = quickfix.ParseMessageWithDataDictionary(m, bytes.NewBuffer(in), nil, d.app44)
	case 2:
		err = quickfix.ParseMessageWithDataDictionary(m, bytes.NewBuffer(in), d.transport, d.app50)
	case 3: // application dictionary only, and it declares custom header/trailer fields: without a transport
		// dictionary they are body fields
		err = quickfix.ParseMessageWithDataDictionary(m, bytes.NewBuffer(in), nil, d.custApp)
	}
	if cs.Expect == "error" {
		if err == nil {
			return "C11/E-misframed-accepted note=" + strings.SplitN(cs.Note, ":", 2)[0], fmt.Sprintf("%s accepted (%s)", fixscan.Pretty(raw), cs.Note)
		}
		return "", ""
	}
	if err != nil {
		return "C11/A-wellformed-rejected" + c11ReuseTag(cs), fmt.Sprintf("%v: %s (config %d%s)", err, fixscan.Pretty(raw), cs.Config, c11ReuseText(cs))
	}
	fields, serr := scanData(raw)
	if serr != nil {
		return "C11/engine", serr.Error()
	}
	secs := [3]*quickfix.FieldMap{&m.Header.FieldMap, &m.Body.FieldMap, &m.Trailer.FieldMap}
	names := []string{"header", "body", "trailer"}
	perSec := [3]int{}
	for _, f := range fields {
		if f.Tag == 448 || f.Tag == 447 {
			continue // members of the NoPartyIDs group are reached through the group, not by tag (C13)
		}
		s := c11Section(f.Tag, cs.Config)
		perSec[s]++
		got, gerr := secs[s].GetBytes(quickfix.Tag(f.Tag))
		if gerr != nil {
			where := "nowhere"
			for o := 0; o < 3; o++ {
				if secs[o].Has(quickfix.Tag(f.Tag)) {
					where = names[o]
				}
			}
			return "C11/S-field-not-in-its-section sec=" + names[s] + " found=" + where, fmt.Sprintf("tag %d not retrievable from the %s (found in: %s): %s (config %d)", f.Tag, names[s], where, fixscan.Pretty(raw), cs.Config)
		}
		if string(got) != f.Value {
			return "C11/V-wrong-value", fmt.Sprintf("tag %d read as %q, wire value %q: %s", f.Tag, got, f.Value, fixscan.Pretty(raw))
		}
		for o := 0; o < 3; o++ {
			if o != s && secs[o].Has(quickfix.Tag(f.Tag)) {
				return "C11/S-field-in-two-sections", fmt.Sprintf("tag %d also present in %s: %s", f.Tag, names[o], fixscan.Pretty(raw))
			}
		}
	}
	for s := 0; s < 3; s++ {
		if n := len(secs[s].Tags()); n != perSec[s] {
			return "C11/S-section-size sec=" + names[s], fmt.Sprintf("%s holds %d tags, wire has %d: %s (config %d)", names[s], n, perSec[s], fixscan.Pretty(raw), cs.Config)
		}
	}
	// wire order preserved for validation
	var wire []fixscan.Field
	for _, tv := range quickfix.VerifWireFields(m) {
		t, v := quickfix.VerifTagValue(tv)
		if t == 0 && len(v) == 0 {
			continue
		}
		wire = append(wire, fixscan.Field{Tag: int(t), Value: string(v)})
	}
	if len(wire) != len(fields) {
		return "C11/O-wire-order-length", fmt.Sprintf("%d fields kept in wire order, message has %d: %s", len(wire), len(fields), fixscan.Pretty(raw))
	}
	for i := range wire {
		if wire[i] != fields[i] {
			return "C11/O-wire-order", fmt.Sprintf("position %d is %v, on the wire %v: %s", i, wire[i], fields[i], fixscan.Pretty(raw))
		}
	}
	if !bytes.Equal(m.Bytes(), raw) || m.String() != string(raw) {
		return "C11/B-raw-bytes-changed", fixscan.Pretty(raw)
	}
	return "", ""
}

func init() {
	register("C11", core.LevelExploration, runC11)
	core.RegisterReplay("C11/case", func(data json.RawMessage) (bool, string, error) {
		var cs c11Case
		if err := json.Unmarshal(data, &cs); err != nil {
			return false, "", err
		}
		r, w := c11Eval(cs)
		return r != "", r + ": " + w, nil
	})
}

func runC11(c *core.Ctx) {
	quick := c.Quick()
	if quick {
		c.SetDeadline(4 * time.Minute)
	} else {
		c.SetDeadline(40 * time.Minute)
	}
	if _, err := c11Load(); err != nil {
		c.EngineError(err.Error())
		return
	}
	maxFields := 5
	if !quick {
		maxFields = 7
	}
	c.SetRule(fmt.Sprintf("all well-formed messages with <= %d fields after 8/9/35 drawn from a tag universe covering every classifier branch (standard header tags, dictionary-only header/trailer tags, body tags of 1-6 digits, SignatureLength/Signature, XMLDataLen+XMLData with SOH and '=' inside, a dictionary-defined repeating group) x 3 field orders x 5 value rotations x 4 dictionary configurations (none; application; customised transport + application; an application dictionary alone that declares custom header/trailer fields), on dictionaries private to each worker whose field tables must be unchanged afterwards, each parsed into a fresh Message and into a Message that parsed one of two other messages before (a long one with signature, custom trailer field and group; one with separators inside XMLData); plus every tag 1..2000 (and ten larger ones) alone in the section it belongs to under each configuration; plus BodyLength corruptions and all permutations of the three leading fields; independent scanner as oracle", maxFields))
	c.Assume("tags are distinct within a message (except repeating-group members)", "dictionary-only header/trailer tags come from a customised copy of FIXT11.xml")
	hdrTags := []int{49, 56, 34, 52, 50, 115, 1128, custHdr}
	bodyTags := []int{1, 11, 55, 58, 9999, 123456}
	trlTags := []int{93, 89, custTrl}
	values := []string{"A", "a=b", "=", strings.Repeat("v", 40), ""}
	type slot struct {
		kind int // 0 hdr 1 body 2 trailer 3 xml pair 4 group
		tag  int
	}
	var universe []slot
	for _, t := range hdrTags {
		universe = append(universe, slot{0, t})
	}
	universe = append(universe, slot{3, 212})
	for _, t := range bodyTags {
		universe = append(universe, slot{1, t})
	}
	universe = append(universe, slot{4, 453})
	for _, t := range trlTags {
		universe = append(universe, slot{2, t})
	}
	jobs := make(chan c11Case, 8192)
	var evals int64
	var wg sync.WaitGroup
	for wk := 0; wk < runtime.NumCPU(); wk++ {
		wg.Add(1)
		go func() {
			defer wg.Done()
			var n int64
			d, derr := c11LoadFresh()
			if derr != nil {
				c.EngineError(derr.Error())
				return
			}
			fp := d.fingerprint()
			for cs := range jobs {
				for reuse := 0; reuse <= len(c11Predecessors); reuse++ {
					cs.Reuse = reuse
					rule, what := c11EvalWith(cs, d)
					if rule == "" && d.fingerprint() != fp {
						// confirm on private dictionaries (c11Eval), then carry on with a pristine set
						if rule, what = c11Eval(cs); rule == "" {
							rule, what = "C11/D-dictionary-changed-by-parsing", "the dictionaries differ from their loaded state after parsing (the altering message is among the earlier ones of this worker)"
						}
						if d, derr = c11LoadFresh(); derr != nil {
							c.EngineError(derr.Error())
							return
						}
						fp = d.fingerprint()
					}
					n++
					if rule != "" {
						if reuse > 0 && !strings.Contains(rule, "reused-message") {
							rule += " reused-message"
							what += c11ReuseText(cs)
						}
						c.Violation(rule, what, "C11/case", cs)
					}
				}
			}
			atomic.AddInt64(&evals, n)
		}()
	}
	emitted := 0
	var chosen []slot
	var rec func(start int)
	build := func(order, rot int) (fields []fixscan.Field, hasGroupOrXML bool) {
		var h, b, t []fixscan.Field
		pos := 0
		val := func() string { v := values[(pos+rot)%len(values)]; pos++; return v }
		for _, s := range chosen {
			switch s.kind {
			case 0:
				h = append(h, fixscan.Field{Tag: s.tag, Value: val()})
			case 1:
				b = append(b, fixscan.Field{Tag: s.tag, Value: val()})
			case 2:
				t = append(t, fixscan.Field{Tag: s.tag, Value: val()})
			case 3:
				data := "<a\x01b=c>"
				h = append(h, fixscan.Field{Tag: 212, Value: strconv.Itoa(len(data))}, fixscan.Field{Tag: 213, Value: data})
				hasGroupOrXML = true
			case 4:
				b = append(b, fixscan.Field{Tag: 453, Value: "2"}, fixscan.Field{Tag: 448, Value: "P1"}, fixscan.Field{Tag: 447, Value: "D"}, fixscan.Field{Tag: 448, Value: "P2"}, fixscan.Field{Tag: 447, Value: "D"})
				hasGroupOrXML = true
			}
		}
		fields = []fixscan.Field{{Tag: 8, Value: "FIXT.1.1"}, {Tag: 35, Value: "D"}}
		switch order {
		case 0:
			fields = append(append(append(fields, h...), b...), t...)
		case 1: // reversed inside sections
			rev := func(x []fixscan.Field) []fixscan.Field {
				var o []fixscan.Field
				for i := len(x) - 1; i >= 0; i-- {
					if x[i].Tag == 213 || (i > 0 && x[i-1].Tag == 212) { // keep the data pair adjacent and ordered
						continue
					}
					o = append(o, x[i])
					if x[i].Tag == 212 {
						o = append(o, x[i+1])
					}
				}
				return o
			}
			hasGroup := false
			for _, s := range chosen {
				if s.kind == 4 {
					hasGroup = true
				}
			}
			if hasGroup {
				fields = append(append(append(fields, rev(h)...), b...), rev(t)...)
			} else {
				fields = append(append(append(fields, rev(h)...), rev(b)...), rev(t)...)
			}
		case 2: // optional header fields after the body
			fields = append(append(append(fields, b...), h...), t...)
		}
		return
	}
	rec = func(start int) {
		if len(chosen) > 0 || start == 0 {
			for order := 0; order < 3; order++ {
				for rot := 0; rot < len(values); rot++ {
					fields, _ := build(order, rot)
					// group members are repeated tags: only with a dictionary that defines the group do they stay
					// together; without one the message is outside the distinct-tags domain
					hasGroup := false
					for _, s := range chosen {
						if s.kind == 4 {
							hasGroup = true
						}
					}
					raw := fixscan.Build(fields)
					for cfg := 0; cfg < 4; cfg++ {
						if hasGroup && cfg == 0 {
							continue // repeated member tags need the dictionary that defines the group
						}
						jobs <- c11Case{Msg: hex.EncodeToString(raw), Config: cfg, Expect: "ok"}
						emitted++
					}
					// corruptions on a sample of messages
					if (emitted/3)%17 == 0 && !hasGroup {
						i9 := bytes.Index(raw, []byte("\x019=")) + 1
						e9 := i9 + bytes.IndexByte(raw[i9:], 1)
						cur, _ := strconv.Atoi(string(raw[i9+2 : e9]))
						for _, v := range []string{strconv.Itoa(cur + 1), strconv.Itoa(cur - 1), strconv.Itoa(cur + 10), strconv.Itoa(cur - 10), "", "A", "-5"} {
							if v == "-1" || v == "0" && cur == 0 {
								continue
							}
							r := append(append(append([]byte{}, raw[:i9+2]...), v...), raw[e9:]...)
							for cfg := 0; cfg < 4; cfg++ {
								jobs <- c11Case{Msg: hex.EncodeToString(r), Config: cfg, Expect: "error", Note: "bodylength:" + v}
							}
						}
						// permutations of the three leading fields
						lead := fields[:2]
						rest := fields[2:]
						_ = lead
						body := fixscan.Build(fields)
						sm, _ := scanData(body)
						if len(sm) >= 3 {
							perms := [][3]int{{0, 2, 1}, {1, 0, 2}, {1, 2, 0}, {2, 0, 1}, {2, 1, 0}}
							for _, p := range perms {
								var out bytes.Buffer
								for _, k := range p {
									fmt.Fprintf(&out, "%d=%s\x01", sm[k].Tag, sm[k].Value)
								}
								for _, f := range sm[3:] {
									fmt.Fprintf(&out, "%d=%s\x01", f.Tag, f.Value)
								}
								for cfg := 0; cfg < 4; cfg++ {
									jobs <- c11Case{Msg: hex.EncodeToString(out.Bytes()), Config: cfg, Expect: "error", Note: fmt.Sprintf("leading-order:%v", p)}
								}
							}
						}
						_ = rest
					}
				}
			}
		}
		if len(chosen) == maxFields || c.Expired() {
			return
		}
		for i := start; i < len(universe); i++ {
			w := 1
			if universe[i].kind == 3 {
				w = 2
			}
			if len(chosen)+w > maxFields+1 {
				continue
			}
			chosen = append(chosen, universe[i])
			rec(i + 1)
			chosen = chosen[:len(chosen)-1]
		}
	}
	rec(0)
	// every tag on its own: 1..2000 and a few large ones, once alone in its section and once next to a neighbour of
	// each other section, under the four dictionary configurations (the classifier tables tag by tag)
	{
		var sweep []int
		for t := 1; t <= 2000; t++ {
			sweep = append(sweep, t)
		}
		sweep = append(sweep, 4999, 5000, 5001, 5050, 9999, 10000, 65535, 65536, 123456, 2147483647)
		for _, t := range sweep {
			switch t {
			case 8, 9, 10, 35, 212, 213, 89, 93, 453, 447, 448:
				continue // framing fields, the length/data pairs and the group of the universe are covered above
			}
			for cfg := 0; cfg < 4; cfg++ {
				var h, b, tr []fixscan.Field
				h = []fixscan.Field{{Tag: 49, Value: "A"}, {Tag: 56, Value: "B"}}
				b = []fixscan.Field{{Tag: 11, Value: "ID"}}
				switch c11Section(t, cfg) {
				case 0:
					h = append(h, fixscan.Field{Tag: t, Value: "V1"})
				case 1:
					if t != 11 {
						b = append(b, fixscan.Field{Tag: t, Value: "V1"})
					}
				case 2:
					tr = append(tr, fixscan.Field{Tag: t, Value: "V1"})
				}
				if t == 49 || t == 56 {
					h = h[:2]
				}
				fields := append(append(append([]fixscan.Field{{Tag: 8, Value: "FIXT.1.1"}, {Tag: 35, Value: "D"}}, h...), b...), tr...)
				jobs <- c11Case{Msg: hex.EncodeToString(fixscan.Build(fields)), Config: cfg, Expect: "ok"}
			}
		}
	}
	// a BodyLength that points at another "10=" than the CheckSum field: the tail of a tag (110=, 210=, 5010=) or
	// the inside of a value
	{
		fields := []fixscan.Field{{Tag: 8, Value: "FIXT.1.1"}, {Tag: 35, Value: "D"}, {Tag: 49, Value: "A"}, {Tag: 56, Value: "B"}, {Tag: 11, Value: "ID"},
			{Tag: 110, Value: "5"}, {Tag: 58, Value: "x10=y"}, {Tag: 210, Value: "7"}, {Tag: 5010, Value: "z"}, {Tag: 55, Value: "S"}}
		raw := fixscan.Build(fields)
		i9 := bytes.Index(raw, []byte("\x019=")) + 1
		e9 := i9 + bytes.IndexByte(raw[i9:], 1)
		bodyStart := e9 + 1
		realTrailer := bytes.LastIndex(raw, []byte("\x0110=")) + 1
		for off := bodyStart; off < realTrailer; off++ {
			if bytes.HasPrefix(raw[off:], []byte("10=")) {
				v := strconv.Itoa(off - bodyStart)
				r := append(append(append([]byte{}, raw[:i9+2]...), v...), raw[e9:]...)
				for cfg := 0; cfg < 4; cfg++ {
					jobs <- c11Case{Msg: hex.EncodeToString(r), Config: cfg, Expect: "error", Note: "bodylength:points at another 10= (" + v + ")"}
				}
			}
		}
	}
	close(jobs)
	wg.Wait()
	c.AddEval(evals)
	c.DistinctN(evals)
	c.Sample(map[string]any{"config": 2, "message": "8=FIXT.1.1|9=..|35=D|49=A|5001=a=b|212=7|213=<a^Ab=c>|1==|5050=vvv|93=|10=..."})
}
