package checks

import (
	"bytes"
	"encoding/json"
	"fmt"
	"os"
	"os/exec"
	"path/filepath"
	"runtime"
	"strconv"
	"strings"
	"sync"
	"time"

	"github.com/quickfixgo/quickfix"

	"verif/internal/core"
	"verif/internal/fixscan"
	"verif/internal/sessmc"
)

// ---------- C02: outbound numbering, persistence before sending, replay exclusion (Engine B) ----------
// The deciding engine lives in sched/: session.go is re-targeted at a scheduler shim by an overlay generated
// from the current tree, and every interleaving with at most b preemptions of small closed scenarios is run.

type c02Report struct {
	Scenario   string   `json:"scenario"`
	Bound      int      `json:"bound"`
	Executions int64    `json:"executions"`
	Outcomes   int      `json:"distinct_outcomes"`
	MaxPoints  int      `json:"max_points"`
	Completed  bool     `json:"completed"`
	Rule       string   `json:"rule"`
	What       string   `json:"what"`
	Choices    []int    `json:"choices"`
	Schedule   []string `json:"schedule"`
	Engine     string   `json:"engine_error"`
	Sample     string   `json:"sample_outcome"`
}

type c02Case struct {
	Scenario  string `json:"scenario"`
	Choices   []int  `json:"choices"`
	FileStore bool   `json:"file_store,omitempty"`
}

var c02BuildOnce sync.Once
var c02BuildErr error

func goEnv() []string {
	return append(os.Environ(), "GOFLAGS=-mod=mod", "GOPROXY=off", "GOSUMDB=off", "GOTOOLCHAIN=local", "CGO_ENABLED=1")
}

// c02Build instruments the current /repo/session.go and builds the schedule explorer against it.
func c02Build(race bool) (note string, err error) {
	scr := filepath.Join(core.VerifDir, ".scratch", "sched")
	os.MkdirAll(scr, 0o755)
	run := func(args ...string) (string, error) {
		cmd := exec.Command(args[0], args[1:]...)
		cmd.Dir = core.VerifDir
		cmd.Env = goEnv()
		out, err := cmd.CombinedOutput()
		return string(out), err
	}
	if out, err := run("go", "build", "-o", "bin/instrument", "./sched/cmd/instrument"); err != nil {
		return "", fmt.Errorf("build instrumenter: %v\n%s", err, out)
	}
	out, err := run("bin/instrument", "/repo", scr, filepath.Join(core.VerifDir, "sched", "vsync", "vsync.go"))
	if err != nil {
		return "", fmt.Errorf("instrument: %v\n%s", err, out)
	}
	note = strings.TrimSpace(out)
	args := []string{"go", "build", "-tags", "verif vsched", "-overlay", filepath.Join(scr, "overlay.json"), "-o", "bin/vsched", "./sched/cmd/vsched"}
	if race {
		args = []string{"go", "build", "-race", "-tags", "verif vsched", "-overlay", filepath.Join(scr, "overlay.json"), "-o", "bin/vsched-race", "./sched/cmd/vsched"}
	}
	if out, err := run(args...); err != nil {
		return note, fmt.Errorf("build schedule explorer against the current tree: %v\n%s", err, out)
	}
	return note, nil
}

func c02Run(args ...string) (*c02Report, string, error) {
	cmd := exec.Command(filepath.Join(core.VerifDir, "bin", "vsched"), args...)
	cmd.Env = append(os.Environ(), "GOGC=800", "GOMAXPROCS=2")
	var stdout, stderr bytes.Buffer
	cmd.Stdout, cmd.Stderr = &stdout, &stderr
	err := cmd.Run()
	var rep c02Report
	if jerr := json.Unmarshal(bytes.TrimSpace(stdout.Bytes()), &rep); jerr != nil {
		return nil, stderr.String(), fmt.Errorf("explorer produced no report (%v): %s", err, stderr.String())
	}
	return &rep, stderr.String(), nil
}

func init() {
	register("C02", core.LevelExploration, runC02)
	core.RegisterReplay("C02/sched", func(data json.RawMessage) (bool, string, error) {
		var cs c02Case
		if err := json.Unmarshal(data, &cs); err != nil {
			return false, "", err
		}
		c02BuildOnce.Do(func() { _, c02BuildErr = c02Build(false) })
		if c02BuildErr != nil {
			return false, "", c02BuildErr
		}
		var parts []string
		for _, c := range cs.Choices {
			parts = append(parts, strconv.Itoa(c))
		}
		args := []string{"-scenario", cs.Scenario, "-replay", strings.Join(parts, ",")}
		if cs.FileStore {
			dir, cleanup := core.Scratch("c02r")
			defer cleanup()
			args = append(args, "-filestore", dir)
		}
		rep, _, err := c02Run(args...)
		if err != nil {
			return false, "", err
		}
		if rep.Engine != "" {
			return false, "", fmt.Errorf("engine error while replaying: %s", rep.Engine)
		}
		return rep.Rule != "", rep.Rule + ": " + rep.What, nil
	})
}

func runC02(c *core.Ctx) {
	quick := c.Quick()
	bound := 2
	perScenario := 4 * time.Minute
	if !quick {
		bound = 3
		perScenario = 9 * time.Minute
	}
	note, err := c02Build(false)
	c02BuildOnce.Do(func() { c02BuildErr = err })
	if err != nil {
		c.EngineError(err.Error())
		return
	}
	c.SetRule(fmt.Sprintf("stateless depth-first exploration of all interleavings with at most b preemptions (iterative context bounding; quick b=%d, thorough b=3 with the bound completed reported per scenario) of 11 closed scenarios on a logged-on real session (two of them with a store reset — ResetOnLogout on the peer's Logout, ResetOnDisconnect — racing the senders) (application sender threads, the session thread running timer/inbound/flush handlers, the connection writer), scheduling points at every Mutex/RWMutex operation, every channel operation on messageOut/messageEvent and every message-store call; distinct = distinct schedules (choice sequences)", bound))
	c.Assume("cooperative scheduler: sequentially consistent interleavings only (weak-memory effects are outside; a separate free-running -race pass of the same thread bodies is supporting evidence in the thorough tier)",
		"session.go is instrumented from the current tree at check time: "+note, "failed non-blocking sends are fair yields; waits are blocking; step horizon 4000",
		"scenarios have at most 3 sender threads and 3 sends in total")
	out, _, err := c02Run("-list")
	_ = out
	scenarios := []string{"S1-two-senders", "S2-senders-and-heartbeat", "S3-resend-during-sends", "S4-testrequest-and-resend", "S5-disconnect-during-send", "S6-three-senders", "S7-resend-no-persist", "S8-resend-trailing-admin", "S9-reset-on-logout", "S10-reset-on-disconnect", "S11-inbound-traffic-during-sends"}
	shards := 6 * runtime.NumCPU() // more shards than cores: level-2 subtrees differ a lot in size
	sem := make(chan struct{}, runtime.NumCPU())
	type job struct {
		scenario string
		bound    int
		file     bool
	}
	var jobs []job
	for _, s := range scenarios {
		b := bound
		if quick && s == "S6-three-senders" {
			b = 1 // 4 million schedules at b=2: left to the thorough tier
		}
		jobs = append(jobs, job{s, b, false})
	}
	fileDir, cleanup := core.Scratch("c02")
	defer cleanup()
	fb := 1
	if !quick {
		fb = 2
	}
	jobs = append(jobs, job{"S1-two-senders", fb, true}, job{"S3-resend-during-sends", fb, true}, job{"S10-reset-on-disconnect", fb, true}, job{"S11-inbound-traffic-during-sends", fb + 1, true})
	completed := map[string]int{}
	for _, j := range jobs {
		var mu sync.Mutex
		var wg sync.WaitGroup
		var execs int64
		outcomes := 0
		maxPts := 0
		allDone := true
		sample := ""
		for i := 0; i < shards; i++ {
			wg.Add(1)
			go func(i int) {
				defer wg.Done()
				sem <- struct{}{}
				defer func() { <-sem }()
				args := []string{"-scenario", j.scenario, "-bound", strconv.Itoa(j.bound), "-shard", fmt.Sprintf("%d/%d", i, shards), "-budget", perScenario.String()}
				if j.file {
					args = append(args, "-filestore", fileDir)
				}
				rep, stderr, err := c02Run(args...)
				mu.Lock()
				defer mu.Unlock()
				if err != nil {
					c.EngineError(fmt.Sprintf("%s shard %d: %v", j.scenario, i, err))
					return
				}
				execs += rep.Executions
				if rep.Outcomes > outcomes {
					outcomes = rep.Outcomes
				}
				if rep.MaxPoints > maxPts {
					maxPts = rep.MaxPoints
				}
				if sample == "" {
					sample = rep.Sample
				}
				if !rep.Completed {
					allDone = false
				}
				if rep.Engine != "" {
					c.EngineError(fmt.Sprintf("%s: %s (choices %v) %s", j.scenario, rep.Engine, rep.Choices, stderr))
				}
				if rep.Rule != "" {
					store := "memory"
					if j.file {
						store = "file"
					}
					c.Violation(rep.Rule+" scenario="+j.scenario+" store="+store, fmt.Sprintf("%s | schedule (thread chosen at each point): %v", rep.What, rep.Schedule), "C02/sched", c02Case{Scenario: j.scenario, Choices: rep.Choices, FileStore: j.file})
				}
			}(i)
		}
		wg.Wait()
		c.AddEval(execs)
		c.DistinctN(execs)
		name := j.scenario
		if j.file {
			name += "/file-store"
		}
		if allDone {
			completed[name] = j.bound
		} else {
			completed[name] = -1
			c.Cap(fmt.Sprintf("scenario %s: preemption bound %d not completed within %v", name, j.bound, perScenario))
		}
		c.Sample(map[string]any{"scenario": name, "preemption_bound": j.bound, "schedules": execs, "distinct_outcomes_max_per_shard": outcomes, "max_scheduling_points": maxPts, "default_schedule_outcome": sample})
	}
	c.Set("preemption_bound_completed_per_scenario", completed)
	runC02Sequential(c)
	if !quick {
		// supporting evidence: free-running -race pass of the same bodies
		if _, err := c02Build(true); err != nil {
			c.Set("race_pass", "build failed: "+err.Error())
		} else {
			total := 0
			pairs := map[string]bool{}
			for _, s := range scenarios {
				cmd := exec.Command(filepath.Join(core.VerifDir, "bin", "vsched-race"), "-scenario", s, "-free", "300")
				var stderr bytes.Buffer
				cmd.Stderr = &stderr
				cmd.Run()
				txt := stderr.String()
				total += strings.Count(txt, "WARNING: DATA RACE")
				for _, blk := range strings.Split(txt, "WARNING: DATA RACE")[1:] {
					var fns []string
					for _, ln := range strings.Split(blk, "\n") {
						ln = strings.TrimSpace(ln)
						if strings.HasPrefix(ln, "github.com/quickfixgo/quickfix.") && !strings.Contains(ln, "Verif") {
							fns = append(fns, strings.TrimPrefix(strings.SplitN(ln, "(", 2)[0]+strings.SplitN(ln, ")", 2)[0][len(strings.SplitN(ln, "(", 2)[0]):]+")", "github.com/quickfixgo/quickfix."))
							if len(fns) == 2 {
								break
							}
						}
					}
					pairs[strings.Join(fns, " <- ")] = true
				}
			}
			var ps []string
			for p := range pairs {
				ps = append(ps, p)
			}
			c.Set("race_pass_reports", total)
			c.Set("race_pass_sites", ps)
		}
	}
}

// ---- sequential part (Engine A): what is transmitted under n is what the store returns under n ----

type c02SeqMon struct {
	conn         int
	owed         []int // numbers handed out while logged on and not yet seen on the wire
	prevLoggedOn bool
	prevS        int // next outbound number after the previous event (0: not yet known)
}

func (m *c02SeqMon) Key() string { return fmt.Sprint("c02:", len(m.owed)) }
func (m *c02SeqMon) Step(w *sessmc.World, e *sessmc.Event, obs []sessmc.Obs) (string, string) {
	if w.Cfg.NoPersist {
		return "", ""
	}
	if w.Conn != m.conn {
		m.conn, m.owed = w.Conn, nil
	}
	// a number handed out while logged on must be transmitted before any later first-time number on that
	// connection (a Logon drops the queue by design and restarts the account)
	for _, o := range obs {
		if o.K == "st" && o.Op == "Reset" {
			m.owed = nil
		}
	}
	if m.prevLoggedOn {
		for _, o := range obs {
			if o.K == "st" && (o.Op == "SaveIncrS" || o.Op == "IncrS") && o.Txt == "" {
				m.owed = append(m.owed, o.S0)
			}
		}
	}
	for _, o := range obs {
		if o.K != "out" || o.PossDup {
			continue
		}
		if o.Type == "A" {
			m.owed = nil
			continue
		}
		keep := m.owed[:0]
		for _, n := range m.owed {
			if n < o.Seq {
				return "C02/R3-number-skipped-on-the-wire type=" + o.Type, fmt.Sprintf("35=%s transmitted as number %d although number %d, handed out earlier while logged on, has not been transmitted", o.Type, o.Seq, n)
			}
			if n != o.Seq {
				keep = append(keep, n)
			}
		}
		m.owed = keep
	}
	// a save-and-increment that fails (a write error of the store) does not consume its number; one that succeeds
	// consumes exactly one
	for _, o := range obs {
		if o.K == "st" && o.Op == "SaveIncrS" {
			if o.Txt != "" && o.S1 != o.S0 {
				return "C02/R6-failed-send-consumed-a-number", fmt.Sprintf("storing number %d failed (%s) but the next outbound number moved from %d to %d: the next accepted message skips a number", o.Arg, o.Txt, o.S0, o.S1)
			}
			if o.Txt == "" && o.S1 != o.S0+1 {
				return "C02/R6-send-did-not-advance-by-one", fmt.Sprintf("storing number %d moved the next outbound number from %d to %d", o.Arg, o.S0, o.S1)
			}
		}
	}
	// "the store's next outbound number is one past the highest number handed out": without a reset it never
	// moves back — not across a reconnect, a refresh or a restart on the persistent store either
	{
		reset := false
		for _, o := range obs {
			if o.K == "st" && o.Op == "Reset" {
				reset = true
			}
		}
		cur := w.S()
		if m.prevS == 0 {
			m.prevS = w.Cfg.InitS
			if m.prevS == 0 {
				m.prevS = 1
			}
		}
		if !reset && cur < m.prevS {
			prev := m.prevS
			m.prevS = cur
			return "C02/R7-next-outbound-number-moved-back", fmt.Sprintf("%s: the next outbound number went from %d to %d without a reset (numbers already handed out will be handed out again)", e.Name, prev, cur)
		}
		m.prevS = cur
	}
	defer func() { m.prevLoggedOn = w.VS.Snapshot().LoggedOn }()
	lastReset := -1
	for i, o := range obs {
		if o.K == "st" && o.Op == "Reset" {
			lastReset = i
		}
		if o.K == "panic" {
			return "C02/panic", o.Txt
		}
	}
	// a message persisted before the last reset of this transition (and not again after it) belongs to the old epoch
	persistedBefore, persistedAfter := map[int]bool{}, map[int]bool{}
	for i, o := range obs {
		if o.K == "st" && (o.Op == "SaveIncrS" || o.Op == "Save") {
			if i > lastReset {
				persistedAfter[o.Arg] = true
			} else {
				persistedBefore[o.Arg] = true
			}
		}
	}
	for _, o := range obs {
		if o.K != "out" || o.PossDup {
			continue
		}
		if lastReset >= 0 && persistedBefore[o.Seq] && !persistedAfter[o.Seq] {
			continue
		}
		got, err := w.Stored(o.Seq)
		if err != nil || len(got) != 1 || !bytes.Equal(got[0], o.Raw) {
			return "C02/R4-transmitted-bytes-not-under-their-number type=" + o.Type, fmt.Sprintf("message 35=%s transmitted as number %d; the store returns %d message(s) under %d (%v)", o.Type, o.Seq, len(got), o.Seq, err)
		}
		if w.S() <= o.Seq {
			return "C02/R5-next-sender-not-past-transmitted", fmt.Sprintf("number %d transmitted but NextSenderMsgSeqNum is %d", o.Seq, w.S())
		}
	}
	return "", ""
}

func init() {
	variantDefs["C02/seq"] = func(cfg sessmc.Config) searchSpec {
		alpha := []*sessmc.Event{sessmc.EvConnect(), sessmc.EvDisconnect(), sessmc.EvLogon(0, 0, ""), sessmc.EvLogon(0, 1, "Y"), sessmc.EvIn("D", 0, false), sessmc.EvIn("1", 0, false, fixscan.Field{Tag: 112, Value: "T"}),
			sessmc.EvIn("D", 2, false), sessmc.EvIn("2", 0, false, fixscan.Field{Tag: 7, Value: "1"}, fixscan.Field{Tag: 16, Value: "0"}), sessmc.EvSend(), sessmc.EvSendSame(), sessmc.EvFlush(),
			sessmc.EvTimeout(quickfix.VerifNeedHeartbeat), sessmc.EvTimeout(quickfix.VerifPeerTimeout), sessmc.EvStop(), sessmc.EvIn("5", 0, false),
			sessmc.EvWindowCloses(), sessmc.EvRestart()}
		if cfg.FileDir != "" {
			// a send during which one of the file store's writes (index line, body, counter) fails
			alpha = append(alpha, sessmc.EvSendFailingWrite(1), sessmc.EvSendFailingWrite(2), sessmc.EvSendFailingWrite(3))
		}
		if cfg.SQLTemplate != "" {
			// SQL store: the same events fail the k-th statement-level call of the send (begin, insert, update, commit)
			alpha = append(alpha, sessmc.EvSendFailingWrite(4))
		}
		return searchSpec{cfg: cfg, alphabet: alpha, mons: func() []sessmc.Monitor { return []sessmc.Monitor{&c02SeqMon{}} }, variant: "C02/seq"}
	}
}

func runC02Sequential(c *core.Ctx) {
	// file store with engine restarts: what was transmitted before a restart must still be under its number
	dir, cleanup := core.Scratch("c02seq")
	defer cleanup()
	for _, ini := range []bool{false, true} {
		cfg := sessmc.Config{Initiator: ini, BeginString: "FIX.4.2", FileDir: dir, RefreshOnLogon: !ini}
		sp := variantDefs["C02/seq"](cfg)
		sp.depth = 5
		if !c.Quick() {
			sp.depth = 6
		}
		x := runSearch(c, sp)
		c.AddCounter("sequential_states", x.States)
	}
	// SQL store (sqlite), sessions identified by sub and location IDs as well, counters reloaded at every logon
	if tmpl, err := sqliteTemplateDB(); err != nil {
		c.EngineError("sqlite: " + err.Error())
	} else {
		tp := dir + "/template.db"
		if err := os.WriteFile(tp, tmpl, 0o644); err != nil {
			c.EngineError(err.Error())
		}
		for _, ini := range []bool{false, true} {
			cfg := sessmc.Config{Initiator: ini, BeginString: "FIX.4.2", FileDir: dir, SQLTemplate: tp, RefreshOnLogon: true,
				SenderSub: "SS", SenderLoc: "SL", TargetSub: "TS", TargetLoc: "TL"}
			sp := variantDefs["C02/seq"](cfg)
			sp.depth = 4
			if !c.Quick() {
				sp.depth = 5
			}
			x := runSearch(c, sp)
			c.AddCounter("sequential_states", x.States)
		}
	}
	depth := 5
	if !c.Quick() {
		depth = 6
	}
	for _, ini := range []bool{false, true} {
		for _, appReset := range []bool{false, true} {
			for _, rl := range []bool{false, true} {
				cfg := sessmc.Config{Initiator: ini, BeginString: "FIX.4.2", AppResetFlag: appReset, ResetOnLogon: rl, InitS: 5, InitT: 7, InitMsgs: []string{"A", "D", "0", "D"}, SessionWindow: true}
				sp := variantDefs["C02/seq"](cfg)
				sp.depth = depth
				x := runSearch(c, sp)
				c.AddCounter("sequential_states", x.States)
			}
		}
	}
}
