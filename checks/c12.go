package checks

import (
	"bytes"
	"encoding/hex"
	"encoding/json"
	"fmt"
	"io"
	"runtime"
	"strings"
	"sync"
	"sync/atomic"
	"time"

	"github.com/quickfixgo/quickfix"

	"verif/internal/core"
	"verif/internal/fixscan"
)

// ---------- C12: stream framing is independent of how the bytes arrive ----------

// partReader delivers the stream in the given chunks. mode: 0 data then (0,EOF); 1 last chunk together
// with EOF; 2 one (0,nil) read before chunk zeroAt.
type partReader struct {
	data   []byte
	cuts   []int // ascending cut offsets (chunk boundaries), excluding 0 and len
	pos    int
	mode   int
	zeroAt int
	zeroed bool
	reads  int
}

func (r *partReader) Read(p []byte) (int, error) {
	r.reads++
	if r.pos >= len(r.data) {
		return 0, io.EOF
	}
	if r.mode == 2 && !r.zeroed && r.pos >= r.zeroAt {
		r.zeroed = true
		return 0, nil
	}
	end := len(r.data)
	for _, c := range r.cuts {
		if c > r.pos {
			end = c
			break
		}
	}
	n := end - r.pos
	if n > len(p) {
		n = len(p)
	}
	copy(p, r.data[r.pos:r.pos+n])
	r.pos += n
	if r.mode == 1 && r.pos >= len(r.data) {
		return n, io.EOF
	}
	return n, nil
}

type frameResult struct {
	frames  [][]byte
	err     string
	changed string // a frame whose bytes changed after later reads (frames are held by the consumer while the stream is drained)
}

func (a frameResult) equal(b frameResult) bool {
	if len(a.frames) != len(b.frames) || a.err != b.err {
		return false
	}
	for i := range a.frames {
		if !bytes.Equal(a.frames[i], b.frames[i]) {
			return false
		}
	}
	return true
}

func frameAll(data []byte, cuts []int, mode, zeroAt int) (res frameResult, panicked string) {
	defer func() {
		if r := recover(); r != nil {
			panicked = fmt.Sprint(r)
		}
	}()
	rd := &partReader{data: data, cuts: cuts, mode: mode, zeroAt: zeroAt}
	p := quickfix.VerifNewParser(rd)
	var held []*bytes.Buffer
	defer func() {
		// the frames as the consumer sees them once the stream is drained
		for i, h := range held {
			if i < len(res.frames) && !bytes.Equal(h.Bytes(), res.frames[i]) && res.changed == "" {
				res.changed = fmt.Sprintf("frame %d was %q when returned and is %q after the later reads", i, fixscan.Pretty(res.frames[i]), fixscan.Pretty(h.Bytes()))
			}
		}
	}()
	for i := 0; i < len(data)+8; i++ {
		b, err := p.ReadMessage()
		if err != nil {
			res.err = err.Error()
			return
		}
		held = append(held, b)
		res.frames = append(res.frames, append([]byte{}, b.Bytes()...))
	}
	res.err = "(frame budget exceeded)"
	return
}

type c12Stream struct {
	name     string
	data     []byte
	expected [][]byte // non-nil for well-formed streams
}

func c12Msg(t string, body ...fixscan.Field) []byte {
	f := []fixscan.Field{{8, "FIX.4.2"}, {35, t}, {34, "2"}, {49, "TW"}, {52, "20240101-00:00:00"}, {56, "ISLD"}}
	return fixscan.Build(append(f, body...))
}

func c12Streams() []c12Stream {
	hb := c12Msg("0")
	tr := c12Msg("1", fixscan.Field{112, "T"})
	// a data field whose content contains a complete trailer look-alike and a BeginString look-alike
	tricky := c12Msg("B", fixscan.Field{95, "14"}, fixscan.Field{96, "x\x0110=000\x018=F\x01"}, fixscan.Field{58, "t"})
	big := func(n int) []byte { return c12Msg("B", fixscan.Field{58, strings.Repeat("y", n)}) }
	cat := func(parts ...[]byte) []byte { return bytes.Join(parts, nil) }
	var s []c12Stream
	add := func(name string, data []byte, exp ...[]byte) { s = append(s, c12Stream{name, data, exp}) }
	add("one", hb, hb)
	add("two", cat(hb, tr), hb, tr)
	add("three", cat(hb, tr, hb), hb, tr, hb)
	add("tricky", cat(tricky, hb), tricky, hb)
	add("garbage-between", cat([]byte("zz\x01\x019=\x01"), hb, []byte("10=\x01=8 9=5"), tr, []byte("tail")), hb, tr)
	add("newline-separated", cat(hb, []byte("\r\n"), tr, []byte("\n")), hb, tr)
	add("big-4000", cat(big(4000), hb), big(4000), hb)
	add("big-4096-edge", cat(hb, big(4096-len(hb)-80), tr), hb, big(4096-len(hb)-80), tr)
	add("big-9000", cat(hb, big(9000), tr), hb, big(9000), tr)
	// a message larger than the buffer with more than a buffer's worth of messages behind it
	{
		parts := [][]byte{hb, big(9000)}
		for i := 0; i < 90; i++ {
			parts = append(parts, tr)
		}
		add("big-9000-then-backlog", cat(parts...), parts...)
	}
	add("many-small", bytes.Repeat(hb, 70), func() [][]byte {
		var o [][]byte
		for i := 0; i < 70; i++ {
			o = append(o, hb)
		}
		return o
	}()...)
	// alignment family: every structural element of the following messages (8=, the BodyLength digits,
	// 10=) is swept across the 4096- and 8192-byte refill points of the internal buffer
	bigTotal := func(total int) []byte {
		n := total - len(big(0))
		for {
			b := big(n)
			if len(b) == total {
				return b
			}
			if len(b) > total {
				n--
			} else {
				n++
			}
			if n < 0 {
				return b
			}
			if len(big(n)) == len(b) { // cannot hit the size exactly (BodyLength digit count changes)
				return b
			}
		}
	}
	for d := -14; d <= 44; d++ {
		first := bigTotal(4096 - d)
		add(fmt.Sprintf("align4096%+d", -d), cat(first, tr, hb, tr), first, tr, hb, tr)
		second := bigTotal(8192 - len(hb) - d)
		add(fmt.Sprintf("align8192%+d", -d), cat(hb, second, tr, hb), hb, second, tr, hb)
	}
	// line noise longer than the internal buffer between messages (no BeginString in it; also noise made of '8's),
	// and noise of 4090..4100 bytes in front of the first message, so that its "8" and "=" fall on either side of
	// the 4096-byte mark of a fresh buffer
	for _, ch := range []string{"x", "8"} {
		junk := func(n int) []byte { return []byte(strings.Repeat(ch, n)) }
		add("noise5000-"+ch, cat(hb, junk(5000), tr, hb), hb, tr, hb)
		for n := 4090; n <= 4100; n++ {
			add(fmt.Sprintf("noise%d-%s", n, ch), cat(junk(n), hb, tr), hb, tr)
		}
	}
	// ill-formed streams: only the differential oracle applies
	add("bad-length-alpha", cat(hb, []byte("8=FIX.4.2\x019=A\x0135=0\x0110=000\x01"), tr))
	add("zero-length", cat(hb, []byte("8=FIX.4.2\x019=0\x0135=0\x0110=000\x01"), tr))
	add("no-length", cat([]byte("8=FIX.4.2\x019=\x0135=0\x0110=000\x01"), tr))
	add("huge-length", cat(hb, []byte("8=FIX.4.2\x019=99999\x0135=0\x0110=000\x01"), tr, hb))
	add("short-length", cat([]byte("8=FIX.4.2\x019=2\x0135=0\x0149=A\x0110=000\x01"), tr))
	add("truncated-tail", cat(hb, tr[:len(tr)-5]))
	add("truncated-in-length", cat(hb, []byte("8=FIX.4.2\x019=1")))
	// the stream ends inside a message body, after its BodyLength has been read (what is missing would still fit
	// the buffer / would not)
	add("truncated-in-body", cat(hb, tr[:len(tr)-14]))
	add("truncated-after-length", cat(hb, []byte("8=FIX.4.2\x019=50\x0135=0\x0149=A")))
	add("truncated-in-body-first", tr[:len(tr)-20])
	add("truncated-in-big-body", cat(hb, big(3000)[:1500]))
	add("truncated-in-bigger-body", cat(hb, big(6000)[:4500]))
	add("only-garbage", []byte("hello world 9=12 10=3"))
	add("empty", []byte{})
	add("nested-begin", cat([]byte("8=FIX8=FIX.4.2\x01"), hb, tr))
	add("negative-length", cat([]byte("8=FIX.4.2\x019=-5\x0135=0\x0110=000\x01"), hb))
	add("big-bad-tail", cat(big(5000), []byte("8=FIX.4.2\x019=7\x01")))
	return s
}

type c12Case struct {
	Stream string `json:"stream"`
	Data   string `json:"data_hex"`
	Cuts   []int  `json:"cuts"`
	Mode   int    `json:"reader_mode"`
	ZeroAt int    `json:"zero_at"`
}

// loopAll: the same stream through the connection's read loop (connection.go): the frames arrive on the inbound
// channel, which the loop closes when the stream ends; then back out through the write loop, which must put exactly
// these bytes on the wire, in order, and return when its channel is closed.
func loopAll(data []byte, cuts []int, mode, zeroAt int) (res frameResult, written []byte, panicked string) {
	defer func() {
		if r := recover(); r != nil {
			panicked = fmt.Sprint(r)
		}
	}()
	rd := &partReader{data: data, cuts: cuts, mode: mode, zeroAt: zeroAt}
	in := make(chan quickfix.VerifFixIn, len(data)+16)
	quickfix.VerifReadLoop(rd, in, nullLog{})
	closed := false
	for !closed {
		select {
		case m, ok := <-in:
			if !ok {
				closed = true
				break
			}
			res.frames = append(res.frames, append([]byte{}, quickfix.VerifInBytes(m)...))
		default:
			res.err = "(inbound channel left open by the read loop)"
			closed = true
		}
	}
	out := make(chan []byte, len(res.frames)+1)
	for _, f := range res.frames {
		out <- f
	}
	close(out)
	var w bytes.Buffer
	quickfix.VerifWriteLoop(&w, out, nullLog{})
	written = w.Bytes()
	return
}

type nullLog struct{}

func (nullLog) OnIncoming([]byte)               {}
func (nullLog) OnOutgoing([]byte)               {}
func (nullLog) OnEvent(string)                  {}
func (nullLog) OnEventf(string, ...interface{}) {}

func c12Run(data []byte, expected [][]byte, cuts []int, mode, zeroAt int, ref *frameResult) (rule, what string) {
	if mode >= 3 {
		res, written, pan := loopAll(data, cuts, mode-3, zeroAt)
		if pan != "" {
			return "C12/panic", "read/write loop: " + pan
		}
		if res.err != "" {
			return "C12/L-inbound-channel-not-closed", res.err
		}
		if len(res.frames) != len(ref.frames) {
			return "C12/L-read-loop-frames", fmt.Sprintf("cuts %v mode %d: the read loop delivered %d frames, the parser frames %d", cuts, mode, len(res.frames), len(ref.frames))
		}
		var all []byte
		for i := range res.frames {
			if !bytes.Equal(res.frames[i], ref.frames[i]) {
				return "C12/L-read-loop-frames", fmt.Sprintf("cuts %v: frame %d delivered by the read loop is %q, expected %q", cuts, i, fixscan.Pretty(res.frames[i]), fixscan.Pretty(ref.frames[i]))
			}
			all = append(all, res.frames[i]...)
		}
		if !bytes.Equal(written, all) {
			return "C12/L-write-loop-bytes", fmt.Sprintf("the write loop put %d bytes on the wire for %d bytes of frames", len(written), len(all))
		}
		return "", ""
	}
	res, pan := frameAll(data, cuts, mode, zeroAt)
	if pan != "" {
		return "C12/panic", pan
	}
	if res.changed != "" {
		return "C12/F-frame-changed-after-return", res.changed
	}
	if !ref.equal(res) {
		return "C12/D-chunking-changed-result", fmt.Sprintf("cuts %v mode %d: %d frames err=%q; single read: %d frames err=%q", cuts, mode, len(res.frames), res.err, len(ref.frames), ref.err)
	}
	if expected != nil {
		if len(res.frames) != len(expected) {
			return "C12/W-frame-count", fmt.Sprintf("%d frames, expected %d", len(res.frames), len(expected))
		}
		for i := range expected {
			if !bytes.Equal(res.frames[i], expected[i]) {
				return "C12/W-frame-content", fmt.Sprintf("frame %d is %q, expected %q", i, fixscan.Pretty(res.frames[i]), fixscan.Pretty(expected[i]))
			}
		}
	}
	return "", ""
}

func init() {
	register("C12", core.LevelExploration, runC12)
	core.RegisterReplay("C12/case", func(data json.RawMessage) (bool, string, error) {
		var cs c12Case
		if err := json.Unmarshal(data, &cs); err != nil {
			return false, "", err
		}
		b, _ := hex.DecodeString(cs.Data)
		var exp [][]byte
		for _, s := range c12Streams() {
			if s.name == cs.Stream {
				exp = s.expected
			}
		}
		ref, pan := frameAll(b, nil, 0, 0)
		if pan != "" {
			return true, "panic: " + pan, nil
		}
		r, w := c12Run(b, exp, cs.Cuts, cs.Mode, cs.ZeroAt, &ref)
		return r != "", r + ": " + w, nil
	})
}

// interesting cut positions for long streams
func c12Positions(data []byte, exhaustiveBelow int) []int {
	n := len(data)
	if n <= exhaustiveBelow {
		out := make([]int, 0, n)
		for i := 1; i < n; i++ {
			out = append(out, i)
		}
		return out
	}
	set := map[int]bool{}
	addAround := func(p, r int) {
		for d := -r; d <= r; d++ {
			if p+d > 0 && p+d < n {
				set[p+d] = true
			}
		}
	}
	for k := 1; k*4096 < n+4096; k++ {
		addAround(k*4096, 6)
		addAround(k*2048, 2)
	}
	for _, pat := range []string{"8=", "\x019=", "\x0110=", "\x0135="} {
		off := 0
		for cnt := 0; cnt < 40; cnt++ {
			i := bytes.Index(data[off:], []byte(pat))
			if i < 0 {
				break
			}
			addAround(off+i, 7)
			off += i + 1
		}
	}
	addAround(n-1, 8)
	addAround(1, 8)
	var out []int
	for p := range set {
		out = append(out, p)
	}
	// sort
	for i := 1; i < len(out); i++ {
		for j := i; j > 0 && out[j-1] > out[j]; j-- {
			out[j-1], out[j] = out[j], out[j-1]
		}
	}
	return out
}

func runC12(c *core.Ctx) {
	quick := c.Quick()
	if quick {
		c.SetDeadline(4 * time.Minute)
	} else {
		c.SetDeadline(40 * time.Minute)
	}
	c.SetRule("for each of ~22 byte streams (well-formed messages incl. look-alike trailers inside data fields, garbage separators, messages of 4000-9000 bytes around the 4096-byte buffer, line noise longer than the buffer between and in front of messages, bad/zero/huge/negative BodyLength, truncated tails): every partition with <= 2 cut points (all positions for streams up to 400 bytes, positions around buffer multiples/field markers for longer ones; thorough: <= 3 cut points on short streams), the all-1-byte partition, every fixed chunk size, x 3 reader behaviours; differential oracle against the single-read result plus exact expected frames for well-formed streams")
	c.Assume("terminal error compared by text", "readers: data then (0,EOF); last chunk with EOF; one (0,nil) read", "connection.go: the read loop must deliver the parser's frames on the inbound channel and close it; the write loop must write the bytes handed to it in order (short streams, <=1 cut and fixed chunk sizes)")
	streams := c12Streams()
	type job struct {
		s    c12Stream
		cuts []int
		mode int
		zero int
	}
	var evals int64
	var wg sync.WaitGroup
	jobs := make(chan job, 4096)
	refs := map[string]*frameResult{}
	for _, s := range streams {
		ref, pan := frameAll(s.data, nil, 0, 0)
		if pan != "" {
			c.Violation("C12/panic stream="+s.name, pan, "C12/case", c12Case{Stream: s.name, Data: hex.EncodeToString(s.data)})
			continue
		}
		r := ref
		refs[s.name] = &r
		// single read must already give the expected frames
		if rule, what := c12Run(s.data, s.expected, nil, 0, 0, &r); rule != "" {
			c.Violation(rule+" stream="+s.name, what, "C12/case", c12Case{Stream: s.name, Data: hex.EncodeToString(s.data)})
		}
	}
	for wk := 0; wk < runtime.NumCPU(); wk++ {
		wg.Add(1)
		go func() {
			defer wg.Done()
			for j := range jobs {
				ref := refs[j.s.name]
				if ref == nil {
					continue
				}
				rule, what := c12Run(j.s.data, j.s.expected, j.cuts, j.mode, j.zero, ref)
				atomic.AddInt64(&evals, 1)
				if rule != "" {
					c.Violation(rule+" stream="+j.s.name, what, "C12/case", c12Case{Stream: j.s.name, Data: hex.EncodeToString(j.s.data), Cuts: j.cuts, Mode: j.mode, ZeroAt: j.zero})
				}
			}
		}()
	}
	sampled := 0
	for _, s := range streams {
		n := len(s.data)
		pos := c12Positions(s.data, 400)
		emit := func(cuts []int) {
			for mode := 0; mode < 3; mode++ {
				zero := 0
				if mode == 2 && len(cuts) > 0 {
					zero = cuts[0]
				}
				jobs <- job{s, cuts, mode, zero}
			}
			// through the connection's read loop and back through its write loop (streams up to 2.5 kB)
			if n <= 2500 && len(cuts) <= 1 || len(cuts) > 2 {
				jobs <- job{s, cuts, 3, 0}
				jobs <- job{s, cuts, 4, 0}
			}
		}
		emit(nil)
		for i, a := range pos {
			emit([]int{a})
			for _, b := range pos[i+1:] {
				emit([]int{a, b})
			}
			if c.Expired() {
				break
			}
		}
		if !quick && n <= 120 {
			for i, a := range pos {
				for j, b := range pos[i+1:] {
					for _, d := range pos[i+1+j+1:] {
						emit([]int{a, b, d})
					}
				}
			}
		}
		// fixed chunk sizes (all for short streams; a spread for long ones) incl. one byte at a time
		for size := 1; size <= n; size++ {
			if n > 400 && !(size <= 16 || size%509 == 0 || (size >= 4090 && size <= 4100) || size == n-1) {
				continue
			}
			var cuts []int
			for p := size; p < n; p += size {
				cuts = append(cuts, p)
			}
			emit(cuts)
		}
		if sampled < 6 {
			sampled++
			c.Sample(map[string]any{"stream": s.name, "bytes": n, "cut_positions_considered": len(pos), "single_read_frames": len(refs[s.name].frames), "terminal_error": refs[s.name].err})
		}
	}
	close(jobs)
	wg.Wait()
	c.AddEval(evals)
	c.DistinctN(evals)
	c.Set("streams", len(streams))
}
