package checks

import (
	"fmt"
	"sort"
	"strings"

	"github.com/quickfixgo/quickfix"

	"verif/internal/core"
	"verif/internal/fixscan"
	"verif/internal/sessmc"
)

// ---------- C04: one exact ResendRequest per gap, nothing received is lost ----------
//
// Reference receiver model, written from the statement. An *episode* starts when the session leaves
// normal operation because a message numbered above T arrived. The model tracks:
//   gapEnd  — number before the first early message (the missing range is [T, gapEnd]),
//   chunkEnd — end of the currently requested chunk (0 = "to infinity"),
//   kept    — early messages the engine must hold,
//   highest — highest number accounted for (received, kept or covered by a gap fill).

type c04Mon struct {
	active   bool
	gapEnd   int
	chunkEnd int
	kept     map[int]bool
	highest  int
	prev     string // state name at the end of the previous step
	t        int    // expected number at the end of the previous step
}

func recovering(st string) bool { return strings.Contains(st, "resend") }
func loggedOnState(st string) bool {
	return strings.Contains(st, "inSession") || strings.Contains(st, "resend")
}

func (m *c04Mon) Key() string {
	if !m.active {
		return "c04:-"
	}
	ks := []int{}
	for k := range m.kept {
		if k >= m.t {
			ks = append(ks, k-m.t)
		}
	}
	sort.Ints(ks)
	ce := -1
	if m.chunkEnd != 0 {
		ce = m.chunkEnd - m.t
	}
	return fmt.Sprintf("c04:%d,%d,%d,%v", m.gapEnd-m.t, ce, m.highest-m.t, ks)
}

func infMarker(bs string) int {
	if bs == "FIX.4.0" || bs == "FIX.4.1" {
		return 999999
	}
	return 0
}

// expectedEnd computes EndSeqNo for a request beginning at begin when [begin, gapEnd] is missing.
func expectedEnd(cfg sessmc.Config, begin, gapEnd int) (wire int, chunkEnd int) {
	gap := gapEnd - begin + 1
	if cfg.Chunk > 0 && cfg.Chunk < gap {
		return begin + cfg.Chunk - 1, begin + cfg.Chunk - 1
	}
	return infMarker(cfg.BeginString), 0
}

// keepable: message types that go through the too-high gate and are held when early.
func keepable(t string) bool {
	switch t {
	case "D", "0", "1", "3", "4g":
		return true
	}
	return false
}

func inKind(m *fixscan.Msg) string {
	if m == nil {
		return ""
	}
	t := m.Type()
	if t == "4" {
		if g, _ := m.Get(123); g == "Y" {
			return "4g"
		}
		return "4r"
	}
	return t
}

func (m *c04Mon) Step(w *sessmc.World, e *sessmc.Event, obs []sessmc.Obs) (rule, what string) {
	sn := w.VS.Snapshot()
	st := sn.State
	prev := m.prev
	m.prev = st
	m.t = w.T()
	cfg := w.Cfg
	// ResendRequests sent in this transition, with T at the moment of sending (ToAdmin callback)
	type rr struct{ begin, end, tAtSend int }
	var reqs []rr
	for _, o := range obs {
		if o.K == "panic" {
			return "C04/panic", o.Txt
		}
		if o.K == "ToAdmin" && o.Type == "2" { // a ResendRequest is generated (numbered, persisted, queued or sent)
			reqs = append(reqs, rr{o.Begin, o.End, o.T0})
		}
	}
	isIn := e.K == "in" && w.LastIn != nil
	q, t0, kind := 0, 0, ""
	if isIn {
		q, t0, kind = w.LastIn.Seq(), w.LastInT, inKind(w.LastIn)
	}
	wasNormalLoggedOn := strings.Contains(prev, "inSession")
	if isIn && kind == "A" {
		// a Logon that resets the store (ResetOnLogon, 141=Y) is measured against the numbers after the reset
		for _, o := range obs {
			if o.K == "st" && o.Op == "Reset" {
				t0 = 1
			}
		}
		// a gap on the Logon itself must open a recovery
		if !m.active && q > t0 && strings.Contains(prev, "logon") && strings.Contains(st, "inSession") && !recovering(st) {
			return "C04/R1-gap-on-logon-ignored", fmt.Sprintf("Logon numbered %d with expected number %d established the session without a recovery (expected number now %d)", q, t0, w.T())
		}
	}
	// a replayed duplicate (PossDup with an OrigSendingTime not after its SendingTime) of something already received
	// is ignored: it must not end the session
	if isIn && e.In != nil && (e.In.PossDup || e.In.OrigSame) && q < t0 && len(e.In.Set) == 0 && e.In.TimeSkew == 0 && loggedOnState(prev) && !loggedOnState(st) {
		return "C04/R4-duplicate-replay-ended-session state=" + prev, fmt.Sprintf("%s (number %d, expected %d) took the session from %s to %s", e.Name, q, t0, prev, st)
	}
	switch {
	case !m.active && recovering(st) && !recovering(prev):
		// episode starts (from normal operation, or on the Logon itself)
		if !isIn || q <= t0 {
			return "C04/R1-recovery-without-gap", fmt.Sprintf("entered recovery on %s (seq %d, expected %d)", e.Name, q, t0)
		}
		wantEnd, chunkEnd := expectedEnd(cfg, t0, q-1)
		if len(reqs) != 1 {
			return fmt.Sprintf("C04/R1-resend-request-count=%d", len(reqs)), fmt.Sprintf("gap %d..%d detected on %s: %d ResendRequests sent", t0, q-1, e.Name, len(reqs))
		}
		if reqs[0].begin != t0 || reqs[0].end != wantEnd {
			return "C04/R1-wrong-range", fmt.Sprintf("gap %d..%d (chunk %d): ResendRequest(%d,%d), expected (%d,%d)", t0, q-1, cfg.Chunk, reqs[0].begin, reqs[0].end, t0, wantEnd)
		}
		m.active, m.gapEnd, m.chunkEnd, m.highest = true, q-1, chunkEnd, q
		m.kept = map[int]bool{}
		if wasNormalLoggedOn && keepable(kind) {
			m.kept[q] = true
		}
	case m.active:
		// bookkeeping for the inbound message
		if isIn {
			switch {
			case q > t0 && keepable(kind) && loggedOnState(st):
				m.kept[q] = true
				if q > m.highest {
					m.highest = q
				}
			}
		}
		if w.T()-1 > m.highest {
			m.highest = w.T() - 1 // consumed or gap-filled up to T-1
		}
		// kept messages handed to the callbacks in this transition are delivered
		if !(isIn && q > t0) {
			for _, o := range obs {
				if (o.K == "FromApp" || o.K == "FromAdmin") && m.kept[o.Seq] {
					delete(m.kept, o.Seq)
				}
			}
		}
		// the gap is closed, but messages are kept above a number that is still missing: they stay kept and the
		// recovery goes on for that hole — covered by the outstanding request when that one runs to infinity,
		// otherwise asked for by exactly one request beginning at the number expected now
		if Tn := w.T(); Tn > m.gapEnd && loggedOnState(st) {
			lowest := 0
			for k := range m.kept {
				if k > Tn && (lowest == 0 || k < lowest) {
					lowest = k
				}
			}
			if lowest != 0 {
				bounded := m.chunkEnd != 0
				m.gapEnd = lowest - 1
				if bounded {
					wantEnd, chunkEnd := expectedEnd(cfg, Tn, m.gapEnd)
					if len(reqs) != 1 || reqs[0].begin != Tn || reqs[0].end != wantEnd {
						return "C04/R2-hole-below-kept-messages-not-requested", fmt.Sprintf("the requested chunk is complete, %d..%d are still missing below the kept message %d: expected one ResendRequest(%d,%d), got %v", Tn, m.gapEnd, lowest, Tn, wantEnd, reqs)
					}
					m.chunkEnd = chunkEnd
					reqs = nil
				} else {
					m.chunkEnd = 0
				}
			}
		}
		for _, r := range reqs {
			ok := cfg.Chunk > 0 && m.chunkEnd != 0 && r.tAtSend >= m.chunkEnd && r.tAtSend <= m.gapEnd
			if !ok {
				return "C04/R2-extra-resend-request state=" + prev, fmt.Sprintf("while recovering gap ..%d (chunk end %d, chunk size %d) a ResendRequest(%d,%d) was sent with expected number %d", m.gapEnd, m.chunkEnd, cfg.Chunk, r.begin, r.end, r.tAtSend)
			}
			wantEnd, chunkEnd := expectedEnd(cfg, r.tAtSend, m.gapEnd)
			if r.begin != r.tAtSend || r.end != wantEnd {
				return "C04/R2-wrong-chunk-range", fmt.Sprintf("next chunk ResendRequest(%d,%d), expected (%d,%d)", r.begin, r.end, r.tAtSend, wantEnd)
			}
			m.chunkEnd = chunkEnd
		}
		if len(reqs) > 1 {
			return "C04/R2-multiple-requests", fmt.Sprintf("%d ResendRequests in one transition", len(reqs))
		}
	default:
		// not in an episode: a ResendRequest may only be sent on entering one (handled above)
		// (a request generated after our own Logout, in the logout state, is outside the statement)
		if len(reqs) > 0 && !recovering(st) && loggedOnState(prev) {
			return "C04/R1-request-without-recovery", fmt.Sprintf("ResendRequest(%d,%d) sent but session not recovering (state %s)", reqs[0].begin, reqs[0].end, st)
		}
	}
	if !m.active {
		return "", ""
	}
	// a kept message that has been handed to the callbacks is delivered, whatever it does to the expected number
	// (a gap fill whose NewSeqNo equals its own number advances nothing)
	if !(isIn && q > t0) {
		for _, o := range obs {
			if (o.K == "FromApp" || o.K == "FromAdmin") && m.kept[o.Seq] {
				delete(m.kept, o.Seq)
			}
		}
	}
	T := w.T()
	if !loggedOnState(st) {
		m.active = false // logout/disconnect ends the episode without obligations
		return "", ""
	}
	if recovering(st) {
		// R3: every early message still ahead of T is held
		held := map[int]bool{}
		for _, k := range sn.Stash {
			held[k] = true
		}
		for k := range m.kept {
			if k >= T && !held[k] {
				return "C04/R3-kept-message-lost state=" + prev, fmt.Sprintf("early message %d was received but is no longer held (held=%v, expected %d)", k, sn.Stash, T)
			}
		}
	}
	// R3: a kept message that is next in sequence once the gap is closed must have been delivered
	if T > m.gapEnd && m.kept[T] {
		return "C04/R3-kept-not-delivered", fmt.Sprintf("gap ..%d closed, expected number %d is a kept message but was not delivered", m.gapEnd, T)
	}
	// R4: nothing skipped => normal operation
	if T > m.highest {
		if recovering(st) {
			return "C04/R4-still-recovering", fmt.Sprintf("everything up to %d received (expected %d) but session still recovering", m.highest, T)
		}
	}
	if !recovering(st) {
		for k := range m.kept {
			if k > T {
				return "C04/R3-kept-message-discarded state=" + prev, fmt.Sprintf("the session returned to normal operation expecting %d although the early message %d, received and kept during the recovery, has not been delivered: it is discarded and will have to be requested again", T, k)
			}
		}
		if T <= m.gapEnd {
			return "C04/R3-recovery-abandoned state=" + prev, fmt.Sprintf("numbers %d..%d are still missing but the session left recovery (state %s → %s); kept messages %v are forgotten", T, m.gapEnd, prev, st, sn.Stash)
		}
		m.active = false
	}
	return "", ""
}

// c04Probe (R5, bounded liveness): from a recovering state, feeding the missing numbers in order
// must reach normal operation within gap+kept+2 messages.
func c04Probe(w *sessmc.World, mons []sessmc.Monitor) (string, string) {
	st := w.VS.Snapshot().State
	if !recovering(st) {
		return "", ""
	}
	ev := sessmc.EvIn("D", 0, true)
	start := w.T()
	for i := 0; i < 16; i++ {
		obs := w.Apply(ev)
		for _, m := range mons {
			if r, wh := m.Step(w, ev, obs); r != "" {
				return r + "(probe)", wh
			}
		}
		s := w.VS.Snapshot().State
		if !recovering(s) {
			if !strings.Contains(s, "inSession") {
				return "C04/R5-probe-left-session", fmt.Sprintf("feeding missing messages from %d led to state %s", start, s)
			}
			return "", ""
		}
	}
	return "C04/R5-no-return-to-normal", fmt.Sprintf("still recovering after feeding 16 in-order replays from %d (expected now %d)", start, w.T())
}

func c04Alphabet() []*sessmc.Event {
	a := []*sessmc.Event{
		sessmc.EvIn("D", 0, true),  // replay of next missing
		sessmc.EvIn("D", 1, true),  // replay out of order
		sessmc.EvIn("D", -1, true), // duplicate replay
		sessmc.EvIn("D", 0, false),
	}
	for k := 1; k <= 4; k++ {
		a = append(a, sessmc.EvSeqReset(0, k, "Y", true))
	}
	for k := 1; k <= 5; k++ {
		a = append(a, sessmc.EvIn("D", k, false)) // live above the gap (also duplicates of kept ones)
	}
	a = append(a, sessmc.EvIn("0", 2, false), sessmc.EvSeqReset(2, 2, "Y", true))
	// early gap fills whose NewSeqNo does not move past their own number (a kept message that advances nothing)
	a = append(a, sessmc.EvSeqReset(1, 0, "Y", false), sessmc.EvSeqReset(2, 0, "Y", true))
	a = append(a, sessmc.EvTimeout(quickfix.VerifPeerTimeout), sessmc.EvTimeout(quickfix.VerifNeedHeartbeat), sessmc.EvFlush())
	// the peer's TestRequest racing ahead of its replay; duplicates replayed within the same clock tick as the original
	a = append(a, sessmc.EvIn("1", 1, false, fixscan.Field{112, "EARLY"}), sessmc.EvInOrigSame("D", -1), sessmc.EvInOrigSame("D", 0))
	return a
}

func c04Configs(quick bool) []sessmc.Config {
	var out []sessmc.Config
	chunks := []int{0, 1, 2, 3, 5}
	for _, ini := range []bool{false, true} {
		for _, bs := range []string{"FIX.4.0", "FIX.4.1", "FIX.4.2", "FIX.4.4"} {
			for _, ch := range chunks {
				if quick && ((bs == "FIX.4.1" || bs == "FIX.4.4") && ch != 2) {
					continue
				}
				if quick && (ch == 5 || (bs == "FIX.4.0" && (ch == 1 || ch == 3))) {
					continue // (chunk 5 is at least as large as every gap of the alphabet; FIX.4.0 differs from FIX.4.2 in the end marker only)
				}
				out = append(out, sessmc.Config{Initiator: ini, BeginString: bs, Chunk: ch})
			}
		}
	}
	return out
}

func init() {
	register("C04", core.LevelMC, runC04)
	mk := func() []sessmc.Monitor { return []sessmc.Monitor{&c04Mon{}, &c01Mon{}} }
	// recovery-focused search from a logged-on session
	variantDefs["C04/recovery"] = func(cfg sessmc.Config) searchSpec {
		return searchSpec{cfg: cfg, alphabet: c04Alphabet(), prefix: []*sessmc.Event{sessmc.EvConnect(), sessmc.EvLogon(0, 0, "")},
			mons: mk, stateCheck: c04Probe, variant: "C04/recovery"}
	}
	// gap detected on the Logon itself
	variantDefs["C04/logon-gap"] = func(cfg sessmc.Config) searchSpec {
		return searchSpec{cfg: cfg, alphabet: c04Alphabet(), prefix: []*sessmc.Event{sessmc.EvConnect(), sessmc.EvLogon(3, 0, "")},
			mons: mk, stateCheck: c04Probe, variant: "C04/logon-gap"}
	}
	// the general C01 alphabet with the C04 monitor (all message kinds, from a never-connected session)
	// gap on a Logon that also resets the store (acceptor with ResetOnLogon and counters left over from the
	// previous connection): the gap is measured from 1
	variantDefs["C04/logon-gap-reset"] = func(cfg sessmc.Config) searchSpec {
		return searchSpec{cfg: cfg, alphabet: c04Alphabet(), prefix: []*sessmc.Event{sessmc.EvConnect(), sessmc.EvLogon(0, 6, "")},
			mons: mk, stateCheck: c04Probe, variant: "C04/logon-gap-reset"}
	}
	variantDefs["C04/general"] = func(cfg sessmc.Config) searchSpec {
		return searchSpec{cfg: cfg, alphabet: c01Alphabet(), mons: mk, stateCheck: c04Probe, variant: "C04/general"}
	}
}

func runC04(c *core.Ctx) {
	dRec, dGen := 5, 4
	if !c.Quick() {
		dRec, dGen = 8, 6
		c.SetDeadline(45 * 60e9)
	} else {
		c.SetDeadline(5 * 60e9)
	}
	c.SetRule("BFS over recovery event sequences on a real logged-on session; reference receiver model checked on every transition; every newly found recovering state is additionally probed by feeding the missing numbers in order (bounded liveness)")
	c.Assume("relative state keys (sequence numbers relative to expected numbers)",
		"'current chunk complete' is read as expected number >= end of requested chunk (the loosest reading of the statement)",
		"early messages of types D,0,1,3 and SequenceReset-GapFill are 'kept'; ResendRequest/SequenceReset-Reset/Logout are processed regardless of number")
	for _, cfg := range c04Configs(c.Quick()) {
		for _, v := range []string{"C04/recovery", "C04/logon-gap"} {
			sp := variantDefs[v](cfg)
			sp.depth, sp.relative, sp.conform = dRec, true, 8
			runSearch(c, sp)
		}
		if cfg.Chunk == 0 || cfg.Chunk == 2 {
			sp := variantDefs["C04/general"](cfg)
			sp.depth, sp.relative = dGen, true
			runSearch(c, sp)
		}
		if c.Expired() {
			break
		}
	}
	// the same gap on the Logon and recoveries with EnableNextExpectedMsgSeqNum=Y on our side and a peer that does not
	// take part in that scheme (no tag 789 in its Logon): everything is as without the option
	for _, ini := range []bool{false, true} {
		for _, ch := range []int{0, 2} {
			cfg := sessmc.Config{Initiator: ini, BeginString: "FIX.4.4", Chunk: ch, Extra: map[string]string{"EnableNextExpectedMsgSeqNum": "Y"}}
			for _, v := range []string{"C04/recovery", "C04/logon-gap"} {
				sp := variantDefs[v](cfg)
				sp.depth, sp.relative = dRec-1, true
				runSearch(c, sp)
			}
		}
	}
	for _, t := range []int{4, 9} {
		cfg := sessmc.Config{BeginString: "FIX.4.2", ResetOnLogon: true, InitS: 5, InitT: t, InitMsgs: []string{"A", "D", "0", "D"}}
		sp := variantDefs["C04/logon-gap-reset"](cfg)
		sp.depth, sp.relative = dRec-2, true
		runSearch(c, sp)
	}
	runConformance(c)
	c.Set("depth_recovery", dRec)
	c.Set("depth_general", dGen)
}
