package checks

import (
	"bytes"
	"encoding/hex"
	"encoding/json"
	"fmt"
	"runtime"
	"sort"
	"strconv"
	"strings"
	"sync"
	"sync/atomic"
	"time"

	"github.com/quickfixgo/quickfix"

	"verif/internal/core"
	"verif/internal/ddwalk"
	"verif/internal/fixscan"
)

// ---------- C15: validation accepts conforming messages and names the defect otherwise ----------

type c15Case struct {
	Dict     string `json:"dict"`
	MsgType  string `json:"msgtype"`
	Defect   string `json:"defect"` // "" = conforming
	Tag      int    `json:"tag,omitempty"`
	Msg      string `json:"msg_hex"`
	Settings int    `json:"settings"` // bit mask as in c09Settings
	Variant  string `json:"variant,omitempty"`
	Reuse    bool   `json:"reuse,omitempty"` // the Message object parsed another (long, defective) message before
}

// c15Predecessor: a long message with a group, signature fields, a duplicate and an undefined tag; what it leaves
// behind in a Message object must not influence the validation of the next message parsed into it.
var c15Predecessor = fixscan.Build([]fixscan.Field{{8, "FIX.4.4"}, {35, "D"}, {49, "A"}, {56, "B"}, {34, "7"}, {52, "20240101-00:00:00"}, {50, "S"}, {11, "id"}, {11, "id2"}, {453, "2"}, {448, "P1"}, {447, "D"}, {452, "1"},
	{448, "P2"}, {447, "D"}, {452, "2"}, {55, "SYM"}, {54, "1"}, {4999, "zz"}, {38, "100"}, {40, "2"}, {44, "1.5"}, {58, ""}, {59, "0"}, {93, "4"}, {89, "ABCD"}})

type c15Exp struct {
	accept  bool
	reasons map[int]bool // acceptable reject reasons
	tag     int          // required RefTagID (0 = any)
}

func valueFor(d *ddwalk.FieldDecl, salt int) string {
	if len(d.Enums) > 0 {
		return d.Enums[salt%len(d.Enums)]
	}
	switch d.Type {
	case "INT", "LENGTH", "SEQNUM", "NUMINGROUP", "DAYOFMONTH":
		return "1"
	case "FLOAT", "PRICE", "QTY", "QUANTITY", "AMT", "PRICEOFFSET", "PERCENTAGE":
		return "1.5"
	case "BOOLEAN":
		return "Y"
	case "UTCTIMESTAMP", "TIME":
		return "20240101-00:00:00"
	case "CHAR":
		return "A"
	}
	return "AB"
}

func invalidFor(d *ddwalk.FieldDecl) (string, bool) {
	switch d.Type {
	case "INT", "LENGTH", "SEQNUM", "NUMINGROUP", "DAYOFMONTH", "FLOAT", "PRICE", "QTY", "QUANTITY", "AMT", "PRICEOFFSET", "PERCENTAGE":
		return "x1", true
	case "BOOLEAN":
		return "Q", true
	case "UTCTIMESTAMP", "TIME":
		return "2024-01-01", true
	}
	return "", false
}

// nonMember returns a type-valid value outside the enumeration.
func nonMember(d *ddwalk.FieldDecl) (string, bool) {
	if len(d.Enums) == 0 {
		return "", false
	}
	cands := []string{"~", "zz9", "987", "0.125"}
	switch d.Type {
	case "INT", "LENGTH", "SEQNUM", "NUMINGROUP", "DAYOFMONTH":
		cands = []string{"987", "9876"}
	case "BOOLEAN":
		return "", false
	case "CHAR":
		cands = []string{"~", "|"}
	}
	for _, c := range cands {
		in := false
		for _, e := range d.Enums {
			if e == c {
				in = true
			}
		}
		if !in {
			return c, true
		}
	}
	return "", false
}

type c15Gen struct {
	dict   string
	ws     *ddwalk.Spec // application dictionary
	ts     *ddwalk.Spec // transport dictionary (header/trailer); == ws for FIX 4.x
	begin  string
	fixt   bool
	header []fixscan.Field // required header fields after 8/35
}

func (g *c15Gen) entry(members []ddwalk.Member, all bool, depth int) []fixscan.Field {
	var out []fixscan.Field
	for i, m := range members {
		if !(i == 0 || m.Required || all) {
			continue
		}
		d := g.ws.FieldsByTag[m.Tag]
		if m.IsGroup {
			if len(m.Group) == 0 || depth >= 3 {
				continue
			}
			out = append(out, fixscan.Field{Tag: m.Tag, Value: "1"})
			out = append(out, g.entry(m.Group, false, depth+1)...)
			continue
		}
		if d.Type == "DATA" || d.Type == "XMLDATA" {
			out = append(out, fixscan.Field{Tag: m.Tag, Value: "A"})
			continue
		}
		out = append(out, fixscan.Field{Tag: m.Tag, Value: valueFor(d, 0)})
	}
	return out
}

// body builds the required-only body; extra (if non-nil) is one optional top-level member to include.
func (g *c15Gen) body(m *ddwalk.Msg, extra *ddwalk.Member, groupEntries int) []fixscan.Field {
	var out []fixscan.Field
	done := map[int]bool{}
	for i := range m.Top {
		x := m.Top[i]
		inc := m.Required[x.Tag] || (extra != nil && extra.Tag == x.Tag)
		if !inc || done[x.Tag] {
			continue
		}
		done[x.Tag] = true
		d := g.ws.FieldsByTag[x.Tag]
		if x.IsGroup {
			n := 1
			if extra != nil && extra.Tag == x.Tag {
				n = groupEntries
			}
			if len(x.Group) == 0 {
				continue
			}
			out = append(out, fixscan.Field{Tag: x.Tag, Value: strconv.Itoa(n)})
			for e := 0; e < n; e++ {
				out = append(out, g.entry(x.Group, false, 1)...)
			}
			continue
		}
		v := valueFor(d, 0)
		if d.Type == "DATA" || d.Type == "XMLDATA" {
			v = "A" // its LENGTH companion, when present, carries 1
		}
		out = append(out, fixscan.Field{Tag: x.Tag, Value: v})
	}
	return out
}

func (g *c15Gen) message(msgType string, body []fixscan.Field) []fixscan.Field {
	f := []fixscan.Field{{Tag: 8, Value: g.begin}, {Tag: 35, Value: msgType}}
	f = append(f, g.header...)
	return append(f, body...)
}

func newC15Gen(dict string) (*c15Gen, error) {
	if err := c13Load(); err != nil {
		return nil, err
	}
	g := &c15Gen{dict: dict, ws: c13Walks[dict], ts: c13Walks[dict]}
	g.begin = map[string]string{"FIX40": "FIX.4.0", "FIX41": "FIX.4.1", "FIX42": "FIX.4.2", "FIX43": "FIX.4.3", "FIX44": "FIX.4.4"}[dict]
	if g.begin == "" {
		g.begin, g.fixt, g.ts = "FIXT.1.1", true, c13Walks["FIXT11"]
	}
	for _, m := range g.ts.Header.Top {
		if !g.ts.Header.Required[m.Tag] || m.Tag == 8 || m.Tag == 9 || m.Tag == 35 {
			continue
		}
		v := valueFor(g.ts.FieldsByTag[m.Tag], 0)
		switch m.Tag {
		case 49:
			v = "SND"
		case 56:
			v = "TGT"
		case 34:
			v = "2"
		}
		g.header = append(g.header, fixscan.Field{Tag: m.Tag, Value: v})
	}
	return g, nil
}

func c15Validate(cs c15Case) (reason, refTag int, rejected bool, parseErr error) {
	raw, _ := hex.DecodeString(cs.Msg)
	msg := quickfix.NewMessage()
	app := c13Dicts[cs.Dict]
	var v quickfix.Validator
	st := c09Settings[cs.Settings]
	if strings.HasPrefix(cs.Dict, "FIX50") || cs.Dict == "FIXT11" {
		appd := app
		if cs.Dict == "FIXT11" {
			appd = c13Dicts["FIX50SP2"]
		}
		if cs.Reuse {
			_ = quickfix.ParseMessageWithDataDictionary(msg, bytes.NewBuffer(append([]byte{}, c15Predecessor...)), c13Dicts["FIXT11"], appd)
		}
		parseErr = quickfix.ParseMessageWithDataDictionary(msg, bytes.NewBuffer(raw), c13Dicts["FIXT11"], appd)
		v = quickfix.NewValidator(st, appd, c13Dicts["FIXT11"])
	} else {
		if cs.Reuse {
			_ = quickfix.ParseMessageWithDataDictionary(msg, bytes.NewBuffer(append([]byte{}, c15Predecessor...)), nil, app)
		}
		parseErr = quickfix.ParseMessageWithDataDictionary(msg, bytes.NewBuffer(raw), nil, app)
		v = quickfix.NewValidator(st, app, nil)
	}
	if parseErr != nil {
		return
	}
	if cs.Reuse {
		// the same Validator object has judged other messages before (a session keeps one for its lifetime): the
		// long defective message, and this very message with its last field carried twice and with an undefined tag
		// appended (both rejected late, during the ordered walk)
		if sm, err := fixscan.Scan(raw); err == nil && len(sm.Fields) > 4 {
			core := append([]fixscan.Field{sm.Fields[0]}, sm.Fields[2:len(sm.Fields)-1]...) // without 9 and 10
			last := core[len(core)-1]
			for _, pf := range [][]fixscan.Field{append(append([]fixscan.Field{}, core...), last), append(append([]fixscan.Field{}, core...), fixscan.Field{Tag: 4998, Value: "zz"})} {
				pm := quickfix.NewMessage()
				var perr error
				if strings.HasPrefix(cs.Dict, "FIX50") || cs.Dict == "FIXT11" {
					appd := app
					if cs.Dict == "FIXT11" {
						appd = c13Dicts["FIX50SP2"]
					}
					perr = quickfix.ParseMessageWithDataDictionary(pm, bytes.NewBuffer(fixscan.Build(pf)), c13Dicts["FIXT11"], appd)
				} else {
					perr = quickfix.ParseMessageWithDataDictionary(pm, bytes.NewBuffer(fixscan.Build(pf)), nil, app)
				}
				if perr == nil {
					_ = v.Validate(pm)
				}
			}
		}
	}
	rej := v.Validate(msg)
	if rej == nil {
		return 0, 0, false, nil
	}
	rt := 0
	if p := rej.RefTagID(); p != nil {
		rt = int(*p)
	}
	return rej.RejectReason(), rt, true, nil
}

// c15Expect: mandated outcome of a defect under the given settings.
func c15Expect(defect string, tag int, set quickfix.ValidatorSettings) c15Exp {
	rej := func(tag int, reasons ...int) c15Exp {
		m := map[int]bool{}
		for _, r := range reasons {
			m[r] = true
		}
		return c15Exp{reasons: m, tag: tag}
	}
	acc := c15Exp{accept: true}
	switch defect {
	case "":
		return acc
	case "required-removed":
		return rej(tag, 1)
	case "unknown-msgtype":
		return rej(0, 11)
	case "undefined-for-message": // defined in the dictionary, not for this message, < 5000
		if !set.RejectInvalidMessage || set.AllowUnknownMessageFields {
			return acc
		}
		return rej(tag, 2)
	case "undefined-tag": // not in the dictionary, < 5000
		if !set.RejectInvalidMessage || set.AllowUnknownMessageFields {
			return acc
		}
		return rej(tag, 0, 2)
	case "undefined-user-tag": // not in the dictionary, >= 5000
		if !set.RejectInvalidMessage || !set.CheckUserDefinedFields {
			return acc
		}
		return rej(tag, 0, 2)
	case "bad-type":
		if !set.RejectInvalidMessage {
			return acc
		}
		return rej(tag, 6, 5) // an enumerated field is reported as value-incorrect first
	case "bad-enum":
		if !set.RejectInvalidMessage {
			return acc
		}
		return rej(tag, 5)
	case "group-count+1", "group-count-1", "group-count-zero":
		if !set.RejectInvalidMessage {
			return acc
		}
		return rej(tag, 16, 5) // an enumerated counter (e.g. NoSides) reports the value first
	case "group-members-swapped":
		if !set.RejectInvalidMessage {
			return acc
		}
		return rej(0, 15, 16, 1, 2, 13)
	case "group-member-required-removed":
		if !set.RejectInvalidMessage {
			return acc
		}
		return rej(tag, 1)
	case "header-field-in-body", "body-field-after-trailer-field":
		if !set.CheckFieldsOutOfOrder {
			return acc
		}
		return rej(tag, 14)
	case "duplicate":
		if !set.RejectInvalidMessage {
			return acc
		}
		return rej(tag, 13)
	case "duplicate-undefined", "duplicate-user-tag":
		// the tag is undefined as well: when that is tolerated by the settings the duplicate must still be
		// reported; otherwise either report is acceptable
		if !set.RejectInvalidMessage {
			return acc
		}
		tolerated := set.AllowUnknownMessageFields
		if defect == "duplicate-user-tag" {
			tolerated = !set.CheckUserDefinedFields
		}
		if tolerated {
			return rej(tag, 13)
		}
		return rej(tag, 13, 0, 2)
	case "header-field-after-trailer-field":
		if !set.CheckFieldsOutOfOrder {
			return acc
		}
		return rej(tag, 14)
	case "header-field-repeated-behind-body":
		// two readings of one defect: out of order where the order is checked, a second occurrence of the tag otherwise
		if set.CheckFieldsOutOfOrder {
			return rej(tag, 14, 13)
		}
		if !set.RejectInvalidMessage {
			return acc
		}
		return rej(tag, 13)
	case "empty-value":
		if !set.CheckFieldsHaveValues && !set.RejectInvalidMessage {
			return acc
		}
		return rej(tag, 4)
	}
	return acc
}

func c15Eval(cs c15Case) (rule, what string) {
	if err := c13Load(); err != nil {
		return "C15/engine", err.Error()
	}
	pan := safely(func() { rule, what = c15EvalInner(cs) })
	if pan != "" {
		return "C15/panic", pan
	}
	return
}

func c15EvalInner(cs c15Case) (string, string) {
	raw, _ := hex.DecodeString(cs.Msg)
	reason, refTag, rejected, perr := c15Validate(cs)
	ctx := fmt.Sprintf("%s/%s defect=%q tag=%d settings=%+v variant=%s: %s", cs.Dict, cs.MsgType, cs.Defect, cs.Tag, c09Settings[cs.Settings], cs.Variant, fixscan.Pretty(raw))
	if cs.Reuse {
		ctx += " (parsed into a Message that had parsed another message before)"
	}
	if perr != nil {
		return "C15/engine-unparsable", perr.Error() + " | " + ctx
	}
	exp := c15Expect(cs.Defect, cs.Tag, c09Settings[cs.Settings])
	if exp.accept {
		if rejected {
			kind := "conforming"
			if cs.Defect != "" {
				kind = "relaxed-" + cs.Defect
			}
			return fmt.Sprintf("C15/A-%s-rejected reason=%d", kind, reason), fmt.Sprintf("rejected with reason %d tag %d | %s", reason, refTag, ctx)
		}
		return "", ""
	}
	if !rejected {
		return "C15/D-defect-accepted defect=" + cs.Defect, ctx
	}
	if !exp.reasons[reason] {
		return fmt.Sprintf("C15/D-wrong-reason defect=%s got=%d", cs.Defect, reason), fmt.Sprintf("reason %d tag %d | %s", reason, refTag, ctx)
	}
	if exp.tag != 0 && refTag != exp.tag {
		return "C15/D-wrong-reftag defect=" + cs.Defect, fmt.Sprintf("reason %d tag %d, expected tag %d | %s", reason, refTag, exp.tag, ctx)
	}
	return "", ""
}

func init() {
	register("C15", core.LevelExploration, runC15)
	core.RegisterReplay("C15/case", func(data json.RawMessage) (bool, string, error) {
		var cs c15Case
		if err := json.Unmarshal(data, &cs); err != nil {
			return false, "", err
		}
		r, w := c15Eval(cs)
		return r != "", r + ": " + w, nil
	})
}

// splice helpers on field lists
func without(f []fixscan.Field, i int) []fixscan.Field {
	return append(append([]fixscan.Field{}, f[:i]...), f[i+1:]...)
}
func insertAt(f []fixscan.Field, i int, x ...fixscan.Field) []fixscan.Field {
	out := append([]fixscan.Field{}, f[:i]...)
	out = append(out, x...)
	return append(out, f[i:]...)
}

func runC15(c *core.Ctx) {
	quick := c.Quick()
	if quick {
		c.SetDeadline(5 * time.Minute)
	} else {
		c.SetDeadline(45 * time.Minute)
	}
	if err := c13Load(); err != nil {
		c.EngineError(err.Error())
		return
	}
	c.SetRule("for every message type of every shipped dictionary: conforming messages (required-only; plus each optional top-level field singly; plus each group with 1 and 2 entries) and every single-defect mutant (each required field removed; undefined tags <5000 and >=5000 at the body boundaries; each typed field with an ill-typed value; each enumerated field with a non-member; each enumerated multiple-value field with two members and with irregular blanks; an undefined tag 5000; each group count +-1 and 0 with entries following; group members swapped; each required member of a group removed from the first and from the last of two entries; every optional header field (enumerated ones with each value) conforming, ill-typed and out of enumeration; header field in body; a header field of the message repeated behind the body; body field after a trailer field; each field duplicated; each value emptied; unknown MsgType), judged under all 32 combinations of validator settings; under the default and the all-off settings also parsed into a Message object that parsed a long defective message before and judged by a Validator object that has rejected two defective variants of the same message before; session part: a real logged-on FIX.4.2/4.3/4.4 session whose validator the factory builds from the configuration (each validator setting alone at Y and at N) receives a conforming NewOrderSingle and one mutant of each kind, and the transmitted Reject's reason and RefTagID are judged")
	c.Assume("expected reason/tag per defect kind follow the FIX session reject reasons; where the pipeline legitimately reports an equally specific rule first the oracle is set-valued (ill-typed value of an enumerated field: 5 or 6; swapped group members: 15,16,1,2 or 13)",
		"message types whose MsgType is not in the transport dictionary's enumeration are not conforming and are skipped", "XmlDataLen/XmlData and other LENGTH/DATA pairs are not used as optional singles")
	settingsList := []int{}
	def := 0 // index of default settings in c09Settings: CheckFieldsOutOfOrder|Reject|!Allow|CheckUser|HaveValues = 1+2+8+16 = 27
	for i, s := range c09Settings {
		if s == (quickfix.ValidatorSettings{CheckFieldsOutOfOrder: true, RejectInvalidMessage: true, CheckUserDefinedFields: true, CheckFieldsHaveValues: true}) {
			def = i
		}
	}
	_ = def
	{
		for i := range c09Settings {
			settingsList = append(settingsList, i)
		}
	}
	jobs := make(chan c15Case, 8192)
	var evals int64
	var wg sync.WaitGroup
	for wk := 0; wk < runtime.NumCPU(); wk++ {
		wg.Add(1)
		go func() {
			defer wg.Done()
			var n int64
			for cs := range jobs {
				r, w := c15Eval(cs)
				n++
				if r != "" {
					c.Violation(r+" dict="+cs.Dict, w, "C15/case", cs)
				}
			}
			atomic.AddInt64(&evals, n)
		}()
	}
	msgCount := 0
	for _, dn := range c09DictNames {
		g, err := newC15Gen(dn)
		if err != nil {
			c.EngineError(err.Error())
			continue
		}
		// MsgType enumeration of the transport dictionary
		mtEnum := map[string]bool{}
		if d := g.ts.FieldsByTag[35]; d != nil {
			for _, e := range d.Enums {
				mtEnum[e] = true
			}
		}
		msgs := g.ws.Messages
		appName := dn
		if dn == "FIXT11" {
			appName = "FIX50SP2"
		}
		for _, m := range msgs {
			if len(mtEnum) > 0 && !mtEnum[m.MsgType] {
				continue
			}
			if dn == "FIXT11" {
				if c13Walks["FIX50SP2"] == nil {
					continue
				}
				// admin messages are validated against the transport dictionary
				if !fixscan.IsAdminType(m.MsgType) {
					continue
				}
			} else if g.fixt && fixscan.IsAdminType(m.MsgType) {
				continue
			}
			_ = appName
			msgCount++
			emit := func(defect string, tag int, fields []fixscan.Field, variant string) {
				raw := hex.EncodeToString(fixscan.Build(fields))
				for _, si := range settingsList {
					jobs <- c15Case{Dict: dn, MsgType: m.MsgType, Defect: defect, Tag: tag, Msg: raw, Settings: si, Variant: variant}
					if si == def || si == 0 {
						jobs <- c15Case{Dict: dn, MsgType: m.MsgType, Defect: defect, Tag: tag, Msg: raw, Settings: si, Variant: variant, Reuse: true}
					}
				}
			}
			base := g.message(m.MsgType, g.body(m, nil, 1))
			hdrLen := 2 + len(g.header)
			emit("", 0, base, "required-only")
			// optional singles and groups
			seen := map[int]bool{}
			for i := range m.Top {
				x := m.Top[i]
				if m.Required[x.Tag] || seen[x.Tag] {
					continue
				}
				seen[x.Tag] = true
				d := g.ws.FieldsByTag[x.Tag]
				if d.Type == "DATA" || d.Type == "XMLDATA" || d.Type == "LENGTH" {
					continue
				}
				if x.IsGroup {
					for _, n := range []int{1, 2} {
						emit("", 0, g.message(m.MsgType, g.body(m, &x, n)), fmt.Sprintf("group %d x%d", x.Tag, n))
					}
					// group defects on the 2-entry form
					body := g.body(m, &x, 2)
					full := g.message(m.MsgType, body)
					for j, f := range full {
						if f.Tag == x.Tag && j >= hdrLen {
							up := append([]fixscan.Field{}, full...)
							up[j].Value = "3"
							emit("group-count+1", x.Tag, up, "")
							down := append([]fixscan.Field{}, full...)
							down[j].Value = "1"
							emit("group-count-1", x.Tag, down, "")
							zero := append([]fixscan.Field{}, full...)
							zero[j].Value = "0"
							emit("group-count-zero", x.Tag, zero, "")
							// swap the first two members of the first entry when the entry has two scalar members
							if j+2 < len(full) && len(x.Group) >= 2 && full[j+1].Tag == x.Group[0].Tag && full[j+2].Tag != x.Group[0].Tag && full[j+2].Tag != x.Tag {
								isMember := false
								for _, gm := range x.Group {
									if gm.Tag == full[j+2].Tag && !gm.IsGroup {
										isMember = true
									}
								}
								if isMember {
									sw := append([]fixscan.Field{}, full...)
									sw[j+1], sw[j+2] = sw[j+2], sw[j+1]
									emit("group-members-swapped", x.Tag, sw, "")
								}
							}
							// a required member missing from the first entry (the next field is the delimiter of the
							// second entry) and from the last entry (the next field lies outside the group)
							ent := g.entry(x.Group, false, 1)
							direct := map[int]bool{}
							for _, gm := range x.Group[1:] {
								if gm.Required && !gm.IsGroup {
									direct[gm.Tag] = true
								}
							}
							if j+2*len(ent) < len(full)+1 {
								for e := 0; e < 2; e++ {
									for k := 1; k < len(ent); k++ {
										at := j + 1 + e*len(ent) + k
										if at < len(full) && direct[ent[k].Tag] && full[at].Tag == ent[k].Tag {
											emit("group-member-required-removed", ent[k].Tag, without(full, at), fmt.Sprintf("group %d entry %d of 2", x.Tag, e+1))
										}
									}
								}
							}
							break
						}
					}
					continue
				}
				if true {
					emit("", 0, g.message(m.MsgType, g.body(m, &x, 1)), fmt.Sprintf("optional %d", x.Tag))
				}
				// an enumerated multiple-value field: members separated by single blanks are fine, irregular blanks
				// (only blanks, leading / trailing / doubled blank, a tab) are not values of the enumeration
				if strings.HasPrefix(d.Type, "MULTIPLE") && len(d.Enums) >= 2 {
					full := g.message(m.MsgType, g.body(m, &x, 1))
					for j := range full {
						if full[j].Tag == x.Tag && j >= hdrLen {
							a, b := d.Enums[0], d.Enums[1]
							ok2 := append([]fixscan.Field{}, full...)
							ok2[j].Value = a + " " + b
							emit("", 0, ok2, fmt.Sprintf("optional %d two members", x.Tag))
							for _, bad := range []string{" ", "\t", " " + a, a + " ", a + "  " + b, a + "\t" + b} {
								bv := append([]fixscan.Field{}, full...)
								bv[j].Value = bad
								emit("bad-enum", x.Tag, bv, "multiple-value blanks")
							}
							break
						}
					}
				}
			}
			// optional header fields: every enumerated one with each of its values (all messages), every other
			// one once (every 7th message); ill-typed and out-of-enumeration values of each
			for _, h := range g.ts.Header.Top {
				if h.IsGroup || g.ts.Header.Required[h.Tag] || h.Tag == 8 || h.Tag == 9 || h.Tag == 35 {
					continue
				}
				hd := g.ts.FieldsByTag[h.Tag]
				if hd == nil || hd.Type == "DATA" || hd.Type == "XMLDATA" || hd.Type == "LENGTH" {
					continue
				}
				if len(hd.Enums) == 0 && msgCount%7 != 1 {
					continue
				}
				nv := 1
				if len(hd.Enums) > 1 && len(hd.Enums) <= 12 {
					nv = len(hd.Enums)
				}
				for k := 0; k < nv; k++ {
					emit("", 0, insertAt(base, hdrLen, fixscan.Field{Tag: h.Tag, Value: valueFor(hd, k)}), fmt.Sprintf("optional header %d=%s", h.Tag, valueFor(hd, k)))
				}
				if bad, ok := invalidFor(hd); ok {
					emit("bad-type", h.Tag, insertAt(base, hdrLen, fixscan.Field{Tag: h.Tag, Value: bad}), "optional header")
				}
				if nm, ok := nonMember(hd); ok {
					emit("bad-enum", h.Tag, insertAt(base, hdrLen, fixscan.Field{Tag: h.Tag, Value: nm}), "optional header")
				}
			}
			// single-defect mutants of the required-only message
			for i, f := range base {
				if f.Tag == 8 || f.Tag == 35 {
					continue
				}
				inHeader := i < hdrLen
				decl := g.ws.FieldsByTag[f.Tag]
				if inHeader {
					decl = g.ts.FieldsByTag[f.Tag]
				}
				// group counts and members are handled by the group mutants
				top := false
				for _, x := range m.Top {
					if x.Tag == f.Tag && !x.IsGroup {
						top = true
					}
				}
				if !inHeader && !top {
					continue
				}
				emit("required-removed", f.Tag, without(base, i), "")
				emit("duplicate", f.Tag, insertAt(base, i+1, f), "")
				e := append([]fixscan.Field{}, base...)
				e[i].Value = ""
				emit("empty-value", f.Tag, e, "")
				if bad, ok := invalidFor(decl); ok {
					b := append([]fixscan.Field{}, base...)
					b[i].Value = bad
					emit("bad-type", f.Tag, b, "")
				}
				if nm, ok := nonMember(decl); ok {
					b := append([]fixscan.Field{}, base...)
					b[i].Value = nm
					emit("bad-enum", f.Tag, b, "")
				}
			}
			// undefined tags at the body boundaries
			notForMsg := 0
			var tags []int
			for t := range g.ws.FieldsByTag {
				tags = append(tags, t)
			}
			sort.Ints(tags)
			for _, t := range tags {
				d := g.ws.FieldsByTag[t]
				if t < 5000 && !m.Tags[t] && !fixscan.IsHeaderTag(t) && !fixscan.IsTrailerTag(t) && len(d.Enums) == 0 && d.Type == "STRING" {
					notForMsg = t
					break
				}
			}
			unknown := 4999
			for g.ws.FieldsByTag[unknown] != nil || g.ts.FieldsByTag[unknown] != nil {
				unknown--
			}
			for _, at := range []int{hdrLen, len(base)} {
				if notForMsg != 0 {
					emit("undefined-for-message", notForMsg, insertAt(base, at, fixscan.Field{Tag: notForMsg, Value: "AB"}), fmt.Sprint(at))
				}
				emit("undefined-tag", unknown, insertAt(base, at, fixscan.Field{Tag: unknown, Value: "AB"}), fmt.Sprint(at))
				emit("undefined-user-tag", 9123, insertAt(base, at, fixscan.Field{Tag: 9123, Value: "AB"}), fmt.Sprint(at))
				// the first number of the user-defined range and the last one below it
				if g.ws.FieldsByTag[5000] == nil && g.ts.FieldsByTag[5000] == nil {
					emit("undefined-user-tag", 5000, insertAt(base, at, fixscan.Field{Tag: 5000, Value: "AB"}), fmt.Sprint(at)+" boundary")
				}
			}
			// an undefined tag carried twice
			emit("duplicate-undefined", unknown, insertAt(base, len(base), fixscan.Field{Tag: unknown, Value: "AB"}, fixscan.Field{Tag: unknown, Value: "AB"}), "")
			emit("duplicate-user-tag", 9123, insertAt(base, len(base), fixscan.Field{Tag: 9123, Value: "AB"}, fixscan.Field{Tag: 9123, Value: "CD"}), "")
			if notForMsg != 0 {
				emit("duplicate-undefined", notForMsg, insertAt(base, len(base), fixscan.Field{Tag: notForMsg, Value: "AB"}, fixscan.Field{Tag: notForMsg, Value: "AB"}), "defined-elsewhere")
			}
			// a header field behind the signature fields of the trailer (also for messages without a body)
			if g.ts.Trailer != nil && g.ts.Trailer.Tags[93] {
				emit("header-field-after-trailer-field", 50, insertAt(base, len(base), fixscan.Field{Tag: 93, Value: "1"}, fixscan.Field{Tag: 89, Value: "A"}, fixscan.Field{Tag: 50, Value: "SUB"}), "")
			}
			// section order defects (need at least one body field)
			isTopScalar := func(tag int) bool {
				for _, x := range m.Top {
					if x.Tag == tag {
						return !x.IsGroup
					}
				}
				return false
			}
			if len(base) > hdrLen {
				emit("header-field-in-body", 50, insertAt(base, len(base), fixscan.Field{Tag: 50, Value: "SUB"}), "")
				// a header field of the message once more, behind the body
				for _, ht := range []int{49, 56} {
					for _, hf := range base[:hdrLen] {
						if hf.Tag == ht {
							emit("header-field-repeated-behind-body", ht, insertAt(base, len(base), hf), "")
						}
					}
				}
				L := len(base) - 1
				if g.ts.Trailer != nil && g.ts.Trailer.Tags[93] && L > hdrLen && isTopScalar(base[L].Tag) {
					// ..., SignatureLength, Signature, last body field
					x := insertAt(base, L, fixscan.Field{Tag: 93, Value: "1"}, fixscan.Field{Tag: 89, Value: "A"})
					emit("body-field-after-trailer-field", base[L].Tag, x, "")
				}
			}
			emit("unknown-msgtype", 0, g.message("ZZ9", g.body(m, nil, 1)), "")
		}
	}
	close(jobs)
	wg.Wait()
	sn := c15SessionPart(c)
	evals += sn
	c.Set("session_part_cases", sn)
	c.AddEval(evals)
	c.DistinctN(evals)
	c.Set("message_definitions_exercised", msgCount)
	c.Set("settings_combinations", len(settingsList))
	c.Sample(map[string]any{"dict": "FIX44", "msgtype": "D", "defect": "required-removed", "tag": 11, "settings": "default", "expected": "reason 1, RefTagID 11"})
}
