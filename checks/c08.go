package checks

import (
	"fmt"

	"github.com/quickfixgo/quickfix"

	"verif/internal/core"
	"verif/internal/fixscan"
	"verif/internal/sessmc"
)

// ---------- C08: application traffic only inside a completed logon; one logout notification ----------

type c08Mon struct {
	conn        int  // connection index the fields below refer to
	sentAny     bool // something was transmitted on this connection
	sentLogon   bool // our Logon was transmitted on this connection
	sentLogout  bool // our Logout was transmitted on this connection
	onLogon     bool // OnLogon happened on this connection
	appOn       bool // between OnLogon and OnLogout
	periodEnded bool // a logged-on period on this connection already got its OnLogout
}

func (m *c08Mon) Key() string {
	return fmt.Sprintf("c08:%v%v%v%v%v%v", m.sentAny, m.sentLogon, m.sentLogout, m.onLogon, m.appOn, m.periodEnded)
}

func (m *c08Mon) Step(w *sessmc.World, e *sessmc.Event, obs []sessmc.Obs) (string, string) {
	if w.Conn != m.conn { // a new connection was opened by this event
		*m = c08Mon{conn: w.Conn, appOn: m.appOn}
		if m.appOn {
			return "C08/R4-logged-on-period-survived-connection-end", "a new connection starts while the application was never told the previous logged-on period ended"
		}
	}
	for _, o := range obs {
		switch o.K {
		case "panic":
			return "C08/R5-panic", o.Txt
		case "second-connect-accepted":
			return "C08/R5-second-connection-accepted state=" + w.VS.Snapshot().State, "a connection attempt while the session is connected was accepted: the earlier connection's outbound channel is abandoned open and its logged-on period never ends"
		case "OnLogon":
			m.onLogon, m.appOn, m.periodEnded = true, true, false
		case "OnLogout":
			if !m.appOn && m.periodEnded {
				return "C08/R4-duplicate-logout-notification", "OnLogout delivered twice for one logged-on period"
			}
			if m.appOn {
				m.periodEnded = true
			}
			m.appOn = false
		case "FromApp":
			if !m.appOn {
				return "C08/R3-fromapp-outside-logon", fmt.Sprintf("FromApp(%d) delivered outside the OnLogon..OnLogout interval", o.Seq)
			}
		case "out":
			if !m.sentAny {
				if o.Type != "A" && o.Type != "5" {
					return "C08/R1-first-message-not-logon type=" + o.Type, fmt.Sprintf("first message transmitted on connection %d is 35=%s", o.Conn, o.Type)
				}
			}
			m.sentAny = true
			admin := fixscan.IsAdminType(o.Type)
			if !admin && !o.PossDup {
				if !m.sentLogon || !m.onLogon {
					return "C08/R2-app-message-before-logon", fmt.Sprintf("application message %d transmitted for the first time before the logon completed", o.Seq)
				}
				if m.sentLogout {
					return "C08/R2-app-message-after-logout", fmt.Sprintf("application message %d transmitted for the first time after our Logout", o.Seq)
				}
			}
			if o.Type == "A" {
				m.sentLogon = true
			}
			if o.Type == "5" {
				m.sentLogout = true
			}
		}
	}
	sn := w.VS.Snapshot()
	if !sn.Connected {
		if m.appOn {
			return "C08/R4-no-logout-notification state=" + sn.State, "connection ended while logged on but OnLogout was not delivered"
		}
		if w.OutOpen && w.Conn > 0 {
			return "C08/R5-channel-left-open", "session is disconnected but did not close its outbound channel"
		}
		if !sn.OutNil {
			return "C08/R5-stale-channel-reference", "session is disconnected but still references the outbound channel"
		}
	}
	return "", ""
}

// c08Alphabet789: the lifecycle alphabet with Logons that announce NextExpectedMsgSeqNum (for sessions with
// EnableNextExpectedMsgSeqNum=Y): what we expect to send next (in step), one more (above anything sent: to be
// refused), lower (the peer missed messages: implied resend).
func c08Alphabet789() []*sessmc.Event {
	a := c08Alphabet()
	return append(a, sessmc.EvLogon789(0, 0), sessmc.EvLogon789(0, 1), sessmc.EvLogon789(0, 3), sessmc.EvLogon789(0, -1), sessmc.EvLogon789(2, 0))
}

func c08Alphabet() []*sessmc.Event {
	wrongComp := &sessmc.Event{K: "in", Name: "in(A@T,wrongCompID)", In: &sessmc.In{Type: "A", Set: []fixscan.Field{{49, "EVIL"}}}}
	rejLogon := sessmc.EvIn("A", 0, false, fixscan.Field{58, "REJECT"})
	rejLogon.Name = "in(A@T,app-refuses)"
	return []*sessmc.Event{
		sessmc.EvConnect(), sessmc.EvDisconnect(), sessmc.EvSecondConnect(),
		sessmc.EvLogon(0, 0, ""), sessmc.EvLogon(-1, 0, ""), sessmc.EvLogon(2, 0, ""), wrongComp, rejLogon,
		sessmc.EvIn("D", 0, false), sessmc.EvIn("D", 1, false), sessmc.EvIn("0", 0, false), sessmc.EvIn("5", 0, false),
		sessmc.EvIn("2", 0, false, fixscan.Field{7, "1"}, fixscan.Field{16, "0"}),
		sessmc.EvGarbage(),
		sessmc.EvSend(), sessmc.EvFlush(),
		sessmc.EvTimeout(quickfix.VerifNeedHeartbeat), sessmc.EvTimeout(quickfix.VerifPeerTimeout),
		sessmc.EvTimeout(quickfix.VerifLogonTimeout), sessmc.EvTimeout(quickfix.VerifLogoutTimeout),
		sessmc.EvStop(),
		// the peer pipelines: a message that ends the connection arrives with another one already buffered behind it
		sessmc.EvPipelined(sessmc.EvIn("5", 0, false), sessmc.EvIn("1", 1, false, fixscan.Field{112, "BEHIND"})),
		sessmc.EvPipelined(sessmc.EvIn("5", 0, false), sessmc.EvIn("D", 1, false)),
	}
}

func init() {
	register("C08", core.LevelMC, runC08)
	variantDefs["C08"] = func(cfg sessmc.Config) searchSpec {
		return searchSpec{cfg: cfg, alphabet: c08Alphabet(), mons: func() []sessmc.Monitor { return []sessmc.Monitor{&c08Mon{}} }, variant: "C08"}
	}
	variantDefs["C08/789"] = func(cfg sessmc.Config) searchSpec {
		return searchSpec{cfg: cfg, alphabet: c08Alphabet789(), mons: func() []sessmc.Monitor { return []sessmc.Monitor{&c08Mon{}} }, variant: "C08/789"}
	}
}

func runC08(c *core.Ctx) {
	depth := 7
	if !c.Quick() {
		depth = 9
		c.SetDeadline(40 * 60e9)
	} else {
		c.SetDeadline(5 * 60e9)
	}
	c.SetRule("BFS over connection-lifecycle event sequences from a never-connected real session; per-connection monitor (first message, application traffic window, FromApp window, logout notification, channel closure) on every transition; plus, on a real Initiator+Acceptor pair inside a testing/synctest bubble: every path of a small model-pair state graph (a send on either side, one cut or file-store restart) replayed with plain cuts and with the writes failing first, judged by R1-R4 on the stamped wire log and the notifications (an engine that makes no further progress is reported by a real-time watchdog)")
	c.Assume("relative state keys", "timer events enabled exactly when the virtual timer is armed; Logon/LogoutTimeout enabled in logon/logout state (stale timers included)",
		"order of transmitted messages is exact (channel FIFO); order between transmissions and callbacks within one transition is not observed")
	for _, ini := range []bool{false, true} {
		for _, rl := range []bool{false, true} {
			for _, rd := range []bool{false, true} {
				for _, bs := range []string{"FIX.4.2", "FIX.4.4"} {
					if c.Quick() && bs == "FIX.4.4" && (rl || rd) {
						continue
					}
					for _, np := range []bool{false, true} {
						if np && (rl || rd || bs == "FIX.4.4") {
							continue
						}
						cfg := sessmc.Config{Initiator: ini, BeginString: bs, ResetOnLogout: rl, ResetOnDisconnect: rd, NoPersist: np}
						sp := variantDefs["C08"](cfg)
						sp.depth, sp.relative, sp.conform = depth, true, 40
						runSearch(c, sp)
					}
				}
			}
		}
	}
	// sessions that exchange NextExpectedMsgSeqNum(789) on the Logon; counters left over from earlier connections
	for _, ini := range []bool{false, true} {
		cfg := sessmc.Config{Initiator: ini, BeginString: "FIX.4.4", Extra: map[string]string{"EnableNextExpectedMsgSeqNum": "Y"}, InitS: 4, InitT: 3, InitMsgs: []string{"A", "D", "D"}}
		sp := variantDefs["C08/789"](cfg)
		sp.depth, sp.relative, sp.conform = depth-2, true, 40
		runSearch(c, sp)
	}
	runConformance(c)
	runC08E2E(c)
	c.Set("depth", depth)
}
