package checks

import (
	"encoding/json"
	"fmt"
	"strconv"
	"time"

	"github.com/quickfixgo/quickfix"

	"verif/internal/core"
	"verif/internal/ddwalk"
	"verif/internal/fixscan"
	"verif/internal/sessmc"
)

// ---------- C15, session part ----------
//
// The validator a session really uses is built by the session factory from the configuration file's
// settings, and the reject reason / reference tag the peer sees are those of the Reject the session
// transmits. This part drives a real logged-on session (Engine A world) whose validator settings come from
// the configuration (each setting alone at Y and at N), feeds it a conforming NewOrderSingle and its
// single-defect mutants, and reads acceptance (FromApp) or the transmitted Reject (373 / 371).

type c15SessCase struct {
	Begin   string `json:"begin"`
	Key     string `json:"setting,omitempty"`
	Val     string `json:"value,omitempty"`
	Defect  string `json:"defect"`
	Tag     int    `json:"tag"`
	Fields  string `json:"fields_json"` // message fields after 8/35 (header values are filled in at delivery)
	MsgType string `json:"msgtype"`
}

var c15SessSettings = []string{"ValidateFieldsOutOfOrder", "ValidateFieldsHaveValues", "RejectInvalidMessage", "AllowUnknownMsgFields", "ValidateUserDefinedFields"}

func c15SessValidatorSettings(key, val string) quickfix.ValidatorSettings {
	s := quickfix.ValidatorSettings{CheckFieldsOutOfOrder: true, CheckFieldsHaveValues: true, RejectInvalidMessage: true, AllowUnknownMessageFields: false, CheckUserDefinedFields: true}
	b := val == "Y"
	switch key {
	case "ValidateFieldsOutOfOrder":
		s.CheckFieldsOutOfOrder = b
	case "ValidateFieldsHaveValues":
		s.CheckFieldsHaveValues = b
	case "RejectInvalidMessage":
		s.RejectInvalidMessage = b
	case "AllowUnknownMsgFields":
		s.AllowUnknownMessageFields = b
	case "ValidateUserDefinedFields":
		s.CheckUserDefinedFields = b
	}
	return s
}

func c15SessEval(cs c15SessCase) (rule, what string) {
	dict := map[string]string{"FIX.4.2": "FIX42.xml", "FIX.4.3": "FIX43.xml", "FIX.4.4": "FIX44.xml"}[cs.Begin]
	cfg := sessmc.Config{BeginString: cs.Begin, DataDictionary: specDir + dict}
	if cs.Key != "" {
		cfg.Extra = map[string]string{cs.Key: cs.Val}
	}
	w, err := sessmc.NewWorld(cfg)
	if err != nil {
		return "C15/engine", err.Error()
	}
	defer w.Close()
	w.Apply(sessmc.EvConnect())
	w.Apply(sessmc.EvLogon(0, 0, ""))
	if st := w.VS.Snapshot().State; st != "inSession" {
		return "C15/engine", "session did not log on: " + st
	}
	var fields []fixscan.Field
	if err := json.Unmarshal([]byte(cs.Fields), &fields); err != nil {
		return "C15/engine", err.Error()
	}
	seq := w.T()
	msg := []fixscan.Field{{Tag: 8, Value: cs.Begin}, {Tag: 35, Value: cs.MsgType}}
	for _, f := range fields {
		switch f.Tag {
		case 49:
			f.Value = sessmc.PeerComp
		case 56:
			f.Value = sessmc.OurComp
		case 34:
			f.Value = strconv.Itoa(seq)
		case 52:
			if f.Value != "" {
				f.Value = fixscan.Stamp(time.Now())
			}
		}
		msg = append(msg, f)
	}
	raw := fixscan.Build(msg)
	obs := w.Apply(&sessmc.Event{K: "in", Name: "in(case)", In: &sessmc.In{Garbage: string(raw)}})
	accepted, reason, refTag, rejected := false, -1, 0, false
	for _, o := range obs {
		switch {
		case o.K == "panic":
			return "C15/panic", o.Txt
		case o.K == "FromApp":
			accepted = true
		case o.K == "out" && (o.Type == "3" || o.Type == "j"):
			rejected = true
			if m, e := fixscan.Scan(o.Raw); e == nil {
				if v, ok := m.Int(373); ok {
					reason = v
				}
				if v, ok := m.Int(371); ok {
					refTag = v
				}
				if o.Type == "j" {
					reason = -2
				}
			}
		}
	}
	exp := c15Expect(cs.Defect, cs.Tag, c15SessValidatorSettings(cs.Key, cs.Val))
	ctx := fmt.Sprintf("%s session, setting %s=%s, defect %q tag %d: %s", cs.Begin, cs.Key, cs.Val, cs.Defect, cs.Tag, fixscan.Pretty(raw))
	if exp.accept {
		if !accepted || rejected {
			return fmt.Sprintf("C15/SA-%s-not-accepted-by-session setting=%s=%s", map[bool]string{true: "conforming", false: "relaxed-" + cs.Defect}[cs.Defect == ""], cs.Key, cs.Val),
				fmt.Sprintf("accepted=%v rejected=%v (reason %d tag %d) | %s", accepted, rejected, reason, refTag, ctx)
		}
		return "", ""
	}
	if accepted || !rejected {
		return "C15/SD-defect-accepted-by-session defect=" + cs.Defect, fmt.Sprintf("accepted=%v rejected=%v | %s", accepted, rejected, ctx)
	}
	// SessionRejectReason values above 11 do not exist in FIX.4.2: there the reason may be absent, the tag may not
	if reason >= 0 && !exp.reasons[reason] {
		return fmt.Sprintf("C15/SD-wrong-reason defect=%s got=%d", cs.Defect, reason), fmt.Sprintf("Reject carries reason %d tag %d | %s", reason, refTag, ctx)
	}
	if reason < 0 {
		high := false
		for r := range exp.reasons {
			if r > 11 {
				high = true
			}
		}
		if !(cs.Begin == "FIX.4.2" && high) {
			return "C15/SD-reject-without-reason defect=" + cs.Defect, fmt.Sprintf("Reject carries no SessionRejectReason | %s", ctx)
		}
	}
	if exp.tag != 0 && refTag != exp.tag {
		return "C15/SD-wrong-reftag defect=" + cs.Defect + " begin=" + cs.Begin, fmt.Sprintf("Reject carries RefTagID %d, expected %d | %s", refTag, exp.tag, ctx)
	}
	return "", ""
}

func init() {
	core.RegisterReplay("C15/session-case", func(data json.RawMessage) (bool, string, error) {
		var cs c15SessCase
		if err := json.Unmarshal(data, &cs); err != nil {
			return false, "", err
		}
		r, w := c15SessEval(cs)
		return r != "", r + ": " + w, nil
	})
}

// c15SessionPart enumerates the cases; returns the number evaluated.
func c15SessionPart(c *core.Ctx) int64 {
	var n int64
	for _, begin := range []string{"FIX.4.2", "FIX.4.3", "FIX.4.4"} {
		dn := map[string]string{"FIX.4.2": "FIX42", "FIX.4.3": "FIX43", "FIX.4.4": "FIX44"}[begin]
		g, err := newC15Gen(dn)
		if err != nil {
			c.EngineError(err.Error())
			return n
		}
		var m *ddwalk.Msg
		for _, x := range g.ws.Messages {
			if x.MsgType == "D" {
				m = x
			}
		}
		if m == nil {
			c.EngineError("no NewOrderSingle in " + dn)
			return n
		}
		base := g.message("D", g.body(m, nil, 1))[2:] // without 8/35
		hdrLen := len(g.header)
		type mut struct {
			defect string
			tag    int
			f      []fixscan.Field
		}
		muts := []mut{{"", 0, base}}
		// one of each kind, at the first eligible body position
		for i := hdrLen; i < len(base); i++ {
			f := base[i]
			top := false
			for _, x := range m.Top {
				if x.Tag == f.Tag && !x.IsGroup {
					top = true
				}
			}
			if !top {
				continue
			}
			muts = append(muts, mut{"required-removed", f.Tag, without(base, i)}, mut{"duplicate", f.Tag, insertAt(base, i+1, f)})
			e := append([]fixscan.Field{}, base...)
			e[i].Value = ""
			muts = append(muts, mut{"empty-value", f.Tag, e})
			break
		}
		unknown := 4999
		for g.ws.FieldsByTag[unknown] != nil {
			unknown--
		}
		muts = append(muts,
			mut{"undefined-tag", unknown, insertAt(base, len(base), fixscan.Field{Tag: unknown, Value: "AB"})},
			mut{"undefined-user-tag", 9123, insertAt(base, len(base), fixscan.Field{Tag: 9123, Value: "AB"})},
			mut{"header-field-in-body", 50, insertAt(base, len(base), fixscan.Field{Tag: 50, Value: "SUB"})})
		// a group with a wrong count (NoAllocs, where the dictionary has it)
		for i := range m.Top {
			x := m.Top[i]
			if x.IsGroup && x.Tag == 78 && len(x.Group) > 0 {
				full := g.message("D", g.body(m, &x, 2))[2:]
				for j, f := range full {
					if f.Tag == 78 {
						up := append([]fixscan.Field{}, full...)
						up[j].Value = "3"
						muts = append(muts, mut{"group-count+1", 78, up})
					}
				}
			}
		}
		settings := [][2]string{{"", ""}}
		for _, k := range c15SessSettings {
			settings = append(settings, [2]string{k, "Y"}, [2]string{k, "N"})
		}
		for _, st := range settings {
			for _, mu := range muts {
				fj, _ := json.Marshal(mu.f)
				cs := c15SessCase{Begin: begin, Key: st[0], Val: st[1], Defect: mu.defect, Tag: mu.tag, Fields: string(fj), MsgType: "D"}
				r, w := c15SessEval(cs)
				n++
				if r != "" {
					c.Violation(r, w, "C15/session-case", cs)
				}
			}
		}
	}
	return n
}
