package checks

import (
	"encoding/json"
	"fmt"
	"os"
	"runtime"
	"strconv"
	"strings"
	"sync"
	"sync/atomic"
	"time"

	"github.com/quickfixgo/quickfix"

	"verif/internal/core"
	"verif/internal/fixscan"
	"verif/internal/sessmc"
)

// ---------- C03: a ResendRequest is answered by an exact, contiguous, well-formed replay ----------

type c03Case struct {
	Cfg     sessmc.Config
	Pre     bool   // history pre-stored (old SendingTime) instead of produced through the live send path
	Hist    string // one letter per message after/before the Logon: P plain app, G app with groups, H heartbeat
	Refuse  []int  // sequence numbers the application declines to resend
	B, E    int    // requested range (E as on the wire)
	FreshTo bool   // (informational)
	Jump    int    // pre-stored histories: the numbers 1..Jump were never stored (the counter had been moved forward)
}

func (c c03Case) String() string {
	j := ""
	if c.Jump > 0 {
		j = fmt.Sprintf(" numbers 1..%d never stored", c.Jump)
	}
	return fmt.Sprintf("%s pre=%v hist=%s%s refuse=%v request=[%d,%d]", c.Cfg, c.Pre, c.Hist, j, c.Refuse, c.B, c.E)
}

type c03Sent struct {
	seq   int
	app   bool
	bytes []byte
}

var groupBody = []fixscan.Field{{11, "ID"}, {453, "2"}, {448, "P1"}, {447, "D"}, {452, "1"}, {802, "1"}, {523, "S1"}, {803, "1"},
	{448, "P2"}, {447, "D"}, {452, "2"}, {55, "IBM"}, {54, "1"}, {60, "20240101-00:00:00"}, {40, "1"}}

// groupEndBody: the repeating group is the last thing in the body (nothing between it and the trailer)
var groupEndBody = []fixscan.Field{{11, "ID"}, {55, "IBM"}, {54, "1"}, {60, "20240101-00:00:00"}, {40, "1"}, {453, "2"}, {448, "P1"}, {447, "D"}, {452, "1"}, {448, "P2"}, {447, "D"}, {452, "2"}}

// nestedEndBody: the last entry of the group ends with a nested group; 0, 1 or 2 body fields follow before the trailer
var nestedEndBody = []fixscan.Field{{11, "ID"}, {55, "IBM"}, {54, "1"}, {60, "20240101-00:00:00"}, {40, "1"}, {453, "2"}, {448, "P1"}, {447, "D"}, {452, "1"},
	{448, "P2"}, {447, "D"}, {452, "2"}, {802, "1"}, {523, "S1"}, {803, "1"}}

func c03PreMsg(bs string, kind byte, seq int) []byte {
	f := []fixscan.Field{{8, bs}, {35, "D"}, {34, strconv.Itoa(seq)}, {49, sessmc.OurComp}, {52, fixscan.Stamp(time.Now().Add(-time.Minute))}, {56, sessmc.PeerComp}}
	switch kind {
	case 'P':
		f = append(f, fixscan.Field{11, "ID" + strconv.Itoa(seq)}, fixscan.Field{55, "X"}, fixscan.Field{58, "a=b"})
	case 'G':
		f = append(f, groupBody...)
	case 'E':
		f = append(f, groupEndBody...)
	case 'B': // an application message without any body field
	case 'R': // a message the application relayed: it went out with PossDupFlag=Y and the OrigSendingTime of its first sender
		f = append(f[:5:5], fixscan.Field{43, "Y"}, fixscan.Field{122, fixscan.Stamp(time.Now().Add(-time.Hour))}, f[5])
		f = append(f, fixscan.Field{11, "ID" + strconv.Itoa(seq)}, fixscan.Field{55, "X"}, fixscan.Field{58, "a=b"})
	case 'X':
		f = append(f, nestedEndBody...)
	case 'Y':
		f = append(append(f, nestedEndBody...), fixscan.Field{528, "A"})
	case 'Z':
		f = append(append(f, nestedEndBody...), fixscan.Field{528, "A"}, fixscan.Field{58, "text"})
	case 'H':
		f[1].Value = "0"
	case 'A': // an application type whose first character is that of an administrative one
		f[1].Value = "AE"
		f = append(f, fixscan.Field{571, "TR" + strconv.Itoa(seq)}, fixscan.Field{55, "X"}, fixscan.Field{58, "a=b"})
	case 'N': // News: the body begins with a group count
		f[1].Value = "B"
		f = append(f, fixscan.Field{33, "2"}, fixscan.Field{58, "line one"}, fixscan.Field{58, "line=two"}, fixscan.Field{148, "headline"})
	}
	return fixscan.Build(f)
}

// c03World builds the session and its outbound history.
func c03World(c c03Case) (*sessmc.World, []c03Sent, error) {
	cfg := c.Cfg
	cfg.RefuseResend = map[int]bool{}
	for _, r := range c.Refuse {
		cfg.RefuseResend[r] = true
	}
	w, err := sessmc.NewWorld(cfg)
	if err != nil {
		return nil, nil, err
	}
	var hist []c03Sent
	if c.Pre {
		for n := 1; n <= c.Jump; n++ {
			hist = append(hist, c03Sent{seq: n}) // nothing stored under it: to be gap-filled like an administrative message
		}
		if c.Jump > 0 {
			w.VS.Store().SetNextSenderMsgSeqNum(c.Jump + 1)
		}
		for i := 0; i < len(c.Hist); i++ {
			n := c.Jump + i + 1
			b := c03PreMsg(cfg.BeginString, c.Hist[i], n)
			if !cfg.NoPersist {
				if err := w.VS.Store().SaveMessage(n, b); err != nil {
					return nil, nil, err
				}
			}
			hist = append(hist, c03Sent{seq: n, app: c.Hist[i] != 'H', bytes: b})
		}
		w.VS.Store().SetNextSenderMsgSeqNum(c.Jump + len(c.Hist) + 1)
	}
	grab := func(obs []sessmc.Obs) {
		for _, o := range obs {
			if o.K == "out" && !o.PossDup {
				hist = append(hist, c03Sent{seq: o.Seq, app: !fixscan.IsAdminType(o.Type), bytes: o.Raw})
			}
		}
	}
	grab(w.Apply(sessmc.EvConnect()))
	grab(w.Apply(sessmc.EvLogon(0, 0, "")))
	if !c.Pre {
		for i := 0; i < len(c.Hist); i++ {
			switch c.Hist[i] {
			case 'P':
				grab(w.Apply(&sessmc.Event{K: "send", Name: "send", Send: []fixscan.Field{{11, "ID"}, {55, "X"}, {58, "a=b"}}}))
				grab(w.Apply(sessmc.EvFlush()))
			case 'G':
				grab(w.Apply(&sessmc.Event{K: "send", Name: "sendG", Send: nil, SendGroup: true}))
				grab(w.Apply(sessmc.EvFlush()))
			case 'E':
				// through the API the body is ordered by tag, so 453 sorts last when the other tags are smaller
				grab(w.Apply(&sessmc.Event{K: "send", Name: "sendE", Send: []fixscan.Field{{11, "ID"}, {55, "IBM"}, {54, "1"}, {40, "1"}}, SendGroupLast: true}))
				grab(w.Apply(sessmc.EvFlush()))
			case 'B':
				grab(w.Apply(&sessmc.Event{K: "send", Name: "sendEmpty", SendEmpty: true}))
				grab(w.Apply(sessmc.EvFlush()))
			case 'A':
				grab(w.Apply(&sessmc.Event{K: "send", Name: "sendAE", SendType: "AE", Send: []fixscan.Field{{571, "TR"}, {55, "X"}, {58, "a=b"}}}))
				grab(w.Apply(sessmc.EvFlush()))
			case 'N':
				grab(w.Apply(&sessmc.Event{K: "send", Name: "sendNews", SendNews: true}))
				grab(w.Apply(sessmc.EvFlush()))
			case 'H':
				grab(w.Apply(sessmc.EvTimeout(quickfix.VerifNeedHeartbeat)))
			}
		}
	}
	for i, h := range hist {
		if h.seq != i+1 {
			return nil, nil, fmt.Errorf("history numbering broken: position %d has seq %d", i+1, h.seq)
		}
	}
	return w, hist, nil
}

type c03Item struct {
	replay   bool
	seq      int
	newSeqNo int
}

func infMarkerFor(bs string, e int) bool {
	ge42 := bs >= "FIX.4.2"
	le42 := bs <= "FIX.4.2"
	return (e == 0 && ge42) || (e == 999999 && le42)
}

// c03Expected computes the reply mandated by the statement.
func c03Expected(c c03Case, hist []c03Sent) []c03Item {
	L := len(hist)
	E := c.E
	if infMarkerFor(c.Cfg.BeginString, c.E) || E > L {
		E = L
	}
	if c.B > E || c.B < 1 {
		return nil
	}
	if c.Cfg.NoPersist {
		return []c03Item{{replay: false, seq: c.B, newSeqNo: E + 1}}
	}
	refused := map[int]bool{}
	for _, r := range c.Refuse {
		refused[r] = true
	}
	var items []c03Item
	gapStart := 0
	for s := c.B; s <= E; s++ {
		h := hist[s-1]
		if h.app && !refused[s] {
			if gapStart != 0 {
				items = append(items, c03Item{seq: gapStart, newSeqNo: s})
				gapStart = 0
			}
			items = append(items, c03Item{replay: true, seq: s})
		} else if gapStart == 0 {
			gapStart = s
		}
	}
	if gapStart != 0 {
		items = append(items, c03Item{seq: gapStart, newSeqNo: E + 1})
	}
	return items
}

func c03Check(c c03Case, w *sessmc.World, hist []c03Sent) (rule, what string) {
	T0 := w.T()
	req := sessmc.EvIn("2", 0, false, fixscan.Field{7, strconv.Itoa(c.B)}, fixscan.Field{16, strconv.Itoa(c.E)})
	obs := w.Apply(req)
	var outs []sessmc.Obs
	for _, o := range obs {
		if o.K == "panic" {
			return "C03/panic", o.Txt
		}
		if o.K == "out" {
			outs = append(outs, o)
		}
	}
	exp := c03Expected(c, hist)
	descr := func() string {
		var sb strings.Builder
		for _, o := range outs {
			sb.WriteString(fixscan.Pretty(o.Raw))
			sb.WriteString("  ")
		}
		return sb.String()
	}
	if len(outs) != len(exp) {
		kind := "extra"
		if len(outs) < len(exp) {
			kind = "missing"
		}
		if len(exp) == 0 {
			kind = "outside-range"
		}
		return "C03/R-reply-count-" + kind, fmt.Sprintf("%d messages sent, %d expected (%v) for %s; sent: %s", len(outs), len(exp), exp, c, descr())
	}
	for i, o := range outs {
		m, err := fixscan.Scan(o.Raw)
		if err != nil {
			return "C03/R-unscannable", err.Error()
		}
		if fr := m.CheckFraming(); fr != "" {
			return "C03/R-framing", fmt.Sprintf("reply %d: %s: %s", i, fr, fixscan.Pretty(o.Raw))
		}
		for _, t := range []int{8, 9, 35, 10, 34} {
			if m.Count(t) != 1 {
				return fmt.Sprintf("C03/R-framing-field-count tag=%d", t), fmt.Sprintf("reply %d carries tag %d %d times: %s (%s)", i, t, m.Count(t), fixscan.Pretty(o.Raw), c)
			}
		}
		if !m.PossDup() {
			return "C03/R-no-possdup", fmt.Sprintf("reply %d lacks PossDupFlag=Y: %s (%s)", i, fixscan.Pretty(o.Raw), c)
		}
		e := exp[i]
		if m.Seq() != e.seq {
			return "C03/R-coverage-not-contiguous", fmt.Sprintf("reply %d has MsgSeqNum %d, expected %d (%v) for %s; sent: %s", i, m.Seq(), e.seq, exp, c, descr())
		}
		if e.replay {
			orig, _ := fixscan.Scan(hist[e.seq-1].bytes)
			if m.Type() != orig.Type() {
				return "C03/R-replay-type", fmt.Sprintf("number %d replayed as 35=%s, original 35=%s (%s)", e.seq, m.Type(), orig.Type(), c)
			}
			if m.BodyRegion() != orig.BodyRegion() {
				return "C03/R-body-not-identical", fmt.Sprintf("number %d: body %q, original %q (%s)", e.seq, fixscan.Pretty([]byte(m.BodyRegion())), fixscan.Pretty([]byte(orig.BodyRegion())), c)
			}
			o52, _ := orig.Get(52)
			// judged on pre-stored histories only (their SendingTime is a minute old, so the comparison
			// does not depend on whether the clock ticked between the original send and the replay)
			if v, ok := m.Get(122); (c.Pre && v != o52) || !ok {
				return "C03/R-origsendingtime", fmt.Sprintf("number %d: OrigSendingTime %q, original SendingTime %q (%s)", e.seq, v, o52, c)
			}
			if !m.Has(52) {
				return "C03/R-no-sendingtime", fmt.Sprintf("replay %d without SendingTime", e.seq)
			}
			if m.Count(43) != 1 || m.Count(122) != 1 || m.Count(34) != 1 || m.Count(52) != 1 {
				return "C03/R-duplicate-header-field", fixscan.Pretty(o.Raw)
			}
		} else {
			if m.Type() != "4" {
				return "C03/R-gap-not-filled", fmt.Sprintf("number %d should be covered by a SequenceReset-GapFill, got 35=%s (%s); sent: %s", e.seq, m.Type(), c, descr())
			}
			if g, _ := m.Get(123); g != "Y" {
				return "C03/R-gapfill-flag", fixscan.Pretty(o.Raw)
			}
			if n, _ := m.Int(36); n != e.newSeqNo {
				return "C03/R-gapfill-newseqno", fmt.Sprintf("GapFill at %d has NewSeqNo %d, expected %d (%v) for %s", e.seq, n, e.newSeqNo, exp, c)
			}
		}
	}
	_ = T0
	return "", ""
}

func c03Eval(c c03Case) (rule, what string, err error) {
	w, hist, err := c03World(c)
	if err != nil {
		return "", "", err
	}
	defer w.Close()
	rule, what = c03Check(c, w, hist)
	return
}

func init() {
	register("C03", core.LevelExploration, runC03)
	core.RegisterReplay("C03/case", func(data json.RawMessage) (bool, string, error) {
		var c c03Case
		if err := json.Unmarshal(data, &c); err != nil {
			return false, "", err
		}
		if c.Cfg.FileDir != "" {
			// persistent-store cases carry the scratch paths of the run that found them: give the replay its own
			dir, cleanup := core.Scratch("c03r")
			defer cleanup()
			c.Cfg.FileDir = dir
			if c.Cfg.SQLTemplate != "" {
				tmpl, err := sqliteTemplateDB()
				if err != nil {
					return false, "", err
				}
				c.Cfg.SQLTemplate = dir + "/template.db"
				if err := os.WriteFile(c.Cfg.SQLTemplate, tmpl, 0o644); err != nil {
					return false, "", err
				}
			}
		}
		r, w, err := c03Eval(c)
		if len(w) > 1500 {
			w = w[:1500] + "..."
		}
		return r != "", r + ": " + w, err
	})
}

func c03Configs(quick bool) []sessmc.Config {
	var out []sessmc.Config
	for _, bs := range []string{"FIX.4.0", "FIX.4.2", "FIX.4.4", "FIXT.1.1"} {
		for _, np := range []bool{false, true} {
			for _, dd := range []bool{false, true} {
				cfg := sessmc.Config{BeginString: bs, NoPersist: np}
				if dd {
					switch bs {
					case "FIX.4.4":
						cfg.DataDictionary = specDir + "FIX44.xml"
					case "FIXT.1.1":
						cfg.TransportDD, cfg.AppDD = specDir+"FIXT11.xml", specDir+"FIX50SP2.xml"
					default:
						continue
					}
				}
				out = append(out, cfg)
				if !quick || (bs == "FIX.4.2" && !dd) {
					ini := cfg
					ini.Initiator = true
					out = append(out, ini)
				}
			}
		}
	}
	return out
}

func runC03(c *core.Ctx) {
	N := 3
	if !c.Quick() {
		N = 5
		c.SetDeadline(45 * time.Minute)
	} else {
		c.SetDeadline(5 * time.Minute)
	}
	c.SetRule(fmt.Sprintf("every outbound history of length <= %d over {plain application, application with nested groups, application with the group last, heartbeat} plus histories <= 2 that also use a two-character application type (AE) and News (body beginning with a group count) (after the Logon; produced through the live send path, or pre-stored with older SendingTime followed by the Logon), every subset of application messages refused on resend, every request [b,e] with 1<=b<=last+2 and e in {0,999999,1..last+2}, x BeginString x persistence x dictionaries x role; an application message without any body field next to messages with a body; a stored history of 1005 messages on the memory, file and SQL store with requests around the thousandth; distinct = distinct (config,history,refusals,request)", N))
	c.Assume("b=0 is outside the domain", "one session is reused for all requests against the same (config, history, refusals); every 7th request additionally on a fresh session",
		"histories whose first 1 or 3 numbers were never used (counter moved forward without a reset): only requests that reach the stored messages are judged, the unused numbers must be gap-filled",
		"body identity is judged on the region between the last leading header field and the first trailing trailer field (standard tag tables)")
	type group struct {
		cfg  sessmc.Config
		pre  bool
		hist string
		ref  []int
		jump int
	}
	var groups []group
	var hists []string
	var rec func(s string)
	rec = func(s string) {
		hists = append(hists, s)
		if len(s) == N {
			return
		}
		for _, k := range "PGEH" {
			rec(s + string(k))
		}
	}
	rec("")
	// two more kinds — a two-character application type beginning like an administrative one (AE), and News, whose
	// body begins with a group count — in every history of up to two messages over all six kinds
	for _, a := range "PGEHAN" {
		for _, b := range " PGEHAN" {
			h := strings.TrimSpace(string(a) + string(b))
			if strings.ContainsAny(h, "AN") {
				hists = append(hists, h)
			}
		}
	}
	// an application message without a body next to one with a body, in either order (the replay parses every stored
	// message into one reused Message object)
	for _, h := range []string{"B", "PB", "BP", "GB", "BG", "HB", "PBP", "NB"} {
		hists = append(hists, h)
	}
	// pre-stored only: a group whose last entry ends with a nested group, followed by 0, 1, 2 body fields
	for _, a := range "XYZ" {
		for _, b := range " PGH" {
			hists = append(hists, strings.TrimSpace(string(a)+string(b)), strings.TrimSpace(string(b)+string(a)))
		}
	}
	// pre-stored only: a relayed message (stored with PossDupFlag and somebody else's OrigSendingTime)
	hists = append(hists, "R", "RP", "PR", "HR")
	for _, cfg := range c03Configs(c.Quick()) {
		for _, pre := range []bool{false, true} {
			for _, h := range hists {
				if !pre && strings.ContainsAny(h, "XYZR") {
					continue // the API writes body fields in tag order: these layouts only exist as stored bytes
				}
				// positions of application messages
				var apps []int
				for i := range h {
					if h[i] != 'H' {
						if pre {
							apps = append(apps, i+1)
						} else {
							apps = append(apps, i+2) // after the Logon (#1)
						}
					}
				}
				for mask := 0; mask < 1<<len(apps); mask++ {
					var ref []int
					for i, a := range apps {
						if mask&(1<<i) != 0 {
							ref = append(ref, a)
						}
					}
					if cfg.NoPersist && mask != 0 {
						continue
					}
					groups = append(groups, group{cfg, pre, h, ref, 0})
					// the same stored history behind numbers that were never used (counter moved forward without a reset)
					if pre && mask == 0 && len(h) >= 1 && len(h) <= 2 && !cfg.NoPersist {
						groups = append(groups, group{cfg, pre, h, ref, 1}, group{cfg, pre, h, ref, 3})
					}
				}
			}
		}
	}
	// numbering past 999999: up to FIX.4.2 that EndSeqNo still means "to the end", from FIX.4.3 on it is a number
	// below the first one asked for
	for _, bs := range []string{"FIX.4.1", "FIX.4.2", "FIX.4.4"} {
		groups = append(groups, group{sessmc.Config{BeginString: bs}, true, "PHP", nil, 1000000})
	}
	c.Set("history_groups", len(groups))
	c03Long(c)
	var idx int64 = -1
	var evals int64
	var wg sync.WaitGroup
	for wk := 0; wk < runtime.NumCPU(); wk++ {
		wg.Add(1)
		go func() {
			defer wg.Done()
			for {
				i := atomic.AddInt64(&idx, 1)
				if int(i) >= len(groups) || c.Expired() {
					return
				}
				g := groups[i]
				base := c03Case{Cfg: g.cfg, Pre: g.pre, Hist: g.hist, Refuse: g.ref, Jump: g.jump}
				w, hist, err := c03World(base)
				if err != nil {
					c.EngineError(err.Error())
					return
				}
				L := len(hist)
				n := 0
				b0 := 1
				if g.jump > 100 {
					b0 = g.jump // the first request starts at the last number that was never used
				}
				for b := b0; b <= L+2; b++ {
					es := []int{0, 999999}
					for e := 1; e <= L+2; e++ {
						es = append(es, e)
					}
					for _, e := range es {
						if g.jump > 0 && e != 0 && e != 999999 && e <= g.jump {
							continue // a range ending inside numbers that were never used is outside the statement's histories
						}
						cs := base
						cs.B, cs.E = b, e
						rule, what := c03Check(cs, w, hist)
						n++
						if rule == "" && n%7 == 0 {
							rule, what, _ = c03Eval(cs)
							n++
						}
						if rule != "" {
							c.Violation(rule+" cfg="+cs.Cfg.String(), what, "C03/case", cs)
							// the shared session may be disturbed: rebuild
							w.Close()
							w, hist, err = c03World(base)
							if err != nil {
								c.EngineError(err.Error())
								return
							}
						}
						if i%211 == 0 && b == 2 && e == 0 {
							c.Sample(cs.String())
						}
					}
				}
				w.Close()
				atomic.AddInt64(&evals, int64(n))
			}
		}()
	}
	wg.Wait()
	c.AddEval(evals)
	c.DistinctN(evals)
	if int(idx) < len(groups)-1 {
		c.Cap("not all history groups evaluated")
	}
}

// c03Long: a stored history of 1005 application messages (memory, file and SQL store) and requests whose range
// spans, starts at, ends at and lies beyond the thousandth message (stores that read a long range in portions).
func c03Long(c *core.Ctx) {
	dir, cleanup := core.Scratch("c03long")
	defer cleanup()
	tp := ""
	if tmpl, err := sqliteTemplateDB(); err == nil {
		tp = dir + "/template.db"
		if os.WriteFile(tp, tmpl, 0o644) != nil {
			tp = ""
		}
	}
	for _, store := range []string{"memory", "file", "sql"} {
		cfg := sessmc.Config{BeginString: "FIX.4.2", OutCap: 2048}
		switch store {
		case "file":
			cfg.FileDir = dir
		case "sql":
			if tp == "" {
				continue
			}
			cfg.FileDir, cfg.SQLTemplate = dir, tp
		}
		base := c03Case{Cfg: cfg, Pre: true, Hist: strings.Repeat("P", 1005)}
		w, hist, err := c03World(base)
		if err != nil {
			c.EngineError(err.Error())
			continue
		}
		for _, r := range [][2]int{{1, 0}, {2, 1003}, {999, 1002}, {1000, 1000}, {1001, 1001}, {1, 1001}, {5, 1005}} {
			cs := base
			cs.B, cs.E = r[0], r[1]
			rule, what := c03Check(cs, w, hist)
			c.AddEval(1)
			c.DistinctN(1)
			if rule != "" {
				if len(what) > 1500 {
					what = what[:1500] + "..."
				}
				c.Violation(rule+" cfg="+cs.Cfg.String()+" long-history", what, "C03/case", cs)
				break
			}
		}
		w.Close()
	}
}
