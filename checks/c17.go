package checks

import (
	"bytes"
	"encoding/json"
	"fmt"
	"os"
	"path/filepath"
	"runtime"
	"sort"
	"strings"
	"sync"
	"sync/atomic"
	"time"

	"github.com/quickfixgo/quickfix"
	"github.com/quickfixgo/quickfix/config"
	filestore "github.com/quickfixgo/quickfix/store/file"

	"verif/internal/core"
)

// ---------- C17: a crash never leaves the persistent store ahead of or without its messages ----------
// Engine D: crash-point and torn-write enumeration over the file store (hook H2), statement-failure
// enumeration over the SQL store (failing driver wrapper, see c17sql.go).

type c17Op struct {
	K   string `json:"k"` // saveincr save incrT setS setT reset refresh reopen
	Arg int    `json:"arg,omitempty"`
}

func (o c17Op) String() string {
	if o.K == "setS" || o.K == "setT" {
		return fmt.Sprintf("%s(%d)", o.K, o.Arg)
	}
	return o.K
}

type c17State struct {
	S, T int
	M    map[int][]byte
	hi   int
}

func (s c17State) clone() c17State {
	n := c17State{S: s.S, T: s.T, hi: s.hi, M: map[int][]byte{}}
	for k, v := range s.M {
		n.M[k] = v
	}
	return n
}

var c17Msgs = [][]byte{[]byte("8=FIX.4.2\x019=12\x0135=D\x0111=AAAA\x0110=000\x01"), []byte("first,1\n2,second\n"), []byte("Z"), []byte("8=FIX.4.2\x019=5\x0135=0\x0110=111\x01"), bytes.Repeat([]byte("q"), 64)}

// apply runs op on the real store and the model; returns false if the op is outside the domain.
func c17Apply(st quickfix.MessageStore, m *c17State, o c17Op, nth int) (bool, error) {
	msg := c17Msgs[nth%len(c17Msgs)]
	switch o.K {
	case "saveincr":
		if m.S <= m.hi {
			return false, nil
		}
		err := st.SaveMessageAndIncrNextSenderMsgSeqNum(m.S, msg)
		m.M[m.S], m.hi = msg, m.S
		m.S++
		return true, err
	case "save":
		seq := m.hi + 1
		err := st.SaveMessage(seq, msg)
		m.M[seq], m.hi = msg, seq
		return true, err
	case "incrT":
		err := st.IncrNextTargetMsgSeqNum()
		m.T++
		return true, err
	case "setS":
		err := st.SetNextSenderMsgSeqNum(o.Arg)
		m.S = o.Arg
		return true, err
	case "setT":
		err := st.SetNextTargetMsgSeqNum(o.Arg)
		m.T = o.Arg
		return true, err
	case "reset":
		err := st.Reset()
		*m = c17State{S: 1, T: 1, M: map[int][]byte{}}
		return true, err
	case "refresh":
		return true, st.Refresh()
	}
	return true, nil
}

// ---- directory images ----

type dirImage map[string][]byte // base name -> content (absent = file does not exist)

func readDir(dir string) dirImage {
	img := dirImage{}
	ents, _ := os.ReadDir(dir)
	for _, e := range ents {
		if b, err := os.ReadFile(filepath.Join(dir, e.Name())); err == nil {
			img[e.Name()] = b
		}
	}
	return img
}

func (d dirImage) clone() dirImage {
	n := dirImage{}
	for k, v := range d {
		n[k] = append([]byte{}, v...)
	}
	return n
}

func (d dirImage) writeTo(dir string) error {
	for k, v := range d {
		if err := os.WriteFile(filepath.Join(dir, k), v, 0o660); err != nil {
			return err
		}
	}
	return nil
}

func (d dirImage) key() string {
	var names []string
	for k := range d {
		names = append(names, k)
	}
	sort.Strings(names)
	var sb strings.Builder
	for _, n := range names {
		fmt.Fprintf(&sb, "%s:%d:%x|", n, len(d[n]), d[n])
	}
	return sb.String()
}

type c17Image struct {
	img   dirImage
	label string // crash point / cut description
	model string // process-crash | power-loss
	acked bool   // taken after the operation returned: only the state after it is acceptable
}

var c17ID = quickfix.SessionID{BeginString: "FIX.4.2", SenderCompID: "SND", TargetCompID: "TGT"}

func c17Factory(dir string) quickfix.MessageStoreFactory {
	st := quickfix.NewSettings()
	st.GlobalSettings().Set(config.FileStorePath, dir)
	st.GlobalSettings().Set(config.FileStoreSync, "Y")
	ss := quickfix.NewSessionSettings()
	ss.Set(config.BeginString, c17ID.BeginString)
	ss.Set(config.SenderCompID, c17ID.SenderCompID)
	ss.Set(config.TargetCompID, c17ID.TargetCompID)
	st.AddSession(ss)
	return filestore.NewStoreFactory(st)
}

// hooks are process-global: crash-image generation is serialised.
var c17HookMu sync.RWMutex

// c17Images runs the history; the last operation is observed at every hook point. Returns the images,
// the model before and after the last operation.
func c17Images(hist []c17Op, scratch string) (images []c17Image, before, after c17State, lastOK bool, err error) {
	dir, e := os.MkdirTemp(scratch, "h")
	if e != nil {
		return nil, before, after, false, e
	}
	defer os.RemoveAll(dir)
	c17HookMu.Lock()
	defer c17HookMu.Unlock()
	st, e := c17Factory(dir).Create(c17ID)
	if e != nil {
		return nil, before, after, false, e
	}
	defer st.Close()
	m := c17State{S: 1, T: 1, M: map[int][]byte{}}
	for i, o := range hist[:len(hist)-1] {
		if o.K == "reopen" {
			st.Close()
			if st, e = c17Factory(dir).Create(c17ID); e != nil {
				return nil, before, after, false, e
			}
			continue
		}
		ok, e := c17Apply(st, &m, o, i)
		if e != nil {
			return nil, before, after, false, e
		}
		if !ok {
			return nil, before, after, false, nil
		}
	}
	before = m.clone()
	last := hist[len(hist)-1]
	start := readDir(dir)
	durable := start.clone() // power-loss view: content as of the last sync (everything is synced between operations)
	prev := start.clone()
	add := func(img dirImage, label, model string) {
		images = append(images, c17Image{img: img.clone(), label: label, model: model})
	}
	filestore.VerifPointHook = func(label string) {
		cur := readDir(dir)
		// the write(s) between prev and cur, per file
		for name, nb := range cur {
			ob, existed := prev[name]
			if !existed {
				durable[name] = []byte{} // creation is durable, content is not until synced
				ob = nil
			}
			if bytes.Equal(ob, nb) {
				continue
			}
			// torn variants of this write: new[:k] + old[k:] for every k (append: old is shorter)
			first := 0
			for first < len(ob) && first < len(nb) && ob[first] == nb[first] {
				first++
			}
			for k := first + 1; k < len(nb); k++ {
				torn := append([]byte{}, nb[:k]...)
				if k < len(ob) {
					torn = append(torn, ob[k:]...)
				}
				if bytes.Equal(torn, nb) || bytes.Equal(torn, ob) {
					continue
				}
				t := prev.clone()
				t[name] = torn
				add(t, fmt.Sprintf("before %s, write to %s cut at byte %d", label, shortName(name), k), "process-crash")
			}
		}
		for name := range prev {
			if _, ok := cur[name]; !ok {
				delete(durable, name) // removal is durable
			}
		}
		if strings.HasPrefix(label, "synced:") {
			name := filepath.Base(strings.TrimPrefix(label, "synced:"))
			if b, ok := cur[name]; ok {
				durable[name] = append([]byte{}, b...)
			}
		}
		add(cur, "at "+shortLabel(label), "process-crash")
		add(durable, "at "+shortLabel(label), "power-loss")
		prev = cur
	}
	// every write of the store is a crash point of its own as well (the hook the store asks before it writes): whatever
	// it did to the file since the last point — a truncation ahead of the write, say — is an image to recover from
	filestore.VerifFailHook = func(label string) error {
		if h := filestore.VerifPointHook; h != nil {
			if i := strings.LastIndex(label, ":"); i >= 0 {
				label = label[:i+1] + shortName(filepath.Base(label[i+1:]))
			}
			h("before " + label)
		}
		return nil
	}
	defer func() { filestore.VerifPointHook, filestore.VerifFailHook = nil, nil }()
	if last.K == "reopen" {
		st.Close()
		st, e = c17Factory(dir).Create(c17ID)
		if e != nil {
			return nil, before, after, false, e
		}
		after = m.clone()
		return images, before, after, true, nil
	}
	ok, e := c17Apply(st, &m, last, len(hist)-1)
	filestore.VerifPointHook, filestore.VerifFailHook = nil, nil
	if e != nil {
		return nil, before, after, false, e
	}
	after = m.clone()
	if ok {
		// the operation has returned (it is acknowledged): with FileStoreSync=Y a power loss now keeps its effect
		images = append(images, c17Image{img: durable.clone(), label: "after the operation returned", model: "power-loss", acked: true})
	}
	return images, before, after, ok, nil
}

func shortName(n string) string {
	if i := strings.LastIndex(n, "."); i >= 0 {
		return n[i+1:]
	}
	return n
}

func shortLabel(l string) string {
	if strings.HasPrefix(l, "synced:") {
		return "synced:" + shortName(filepath.Base(l))
	}
	return l
}

// c17Judge reopens an image and checks R1..R5, then every follow-up operation.
func c17Judge(img c17Image, last c17Op, before, after c17State, scratch string) (rule, what string) {
	openImage := func() (quickfix.MessageStore, string, error) {
		d, err := os.MkdirTemp(scratch, "i")
		if err != nil {
			return nil, "", err
		}
		if err := img.img.writeTo(d); err != nil {
			return nil, d, err
		}
		st, err := c17Factory(d).Create(c17ID)
		if err != nil {
			return nil, d, err // the factory may hand back a typed nil store with the error
		}
		return st, d, nil
	}
	if img.acked {
		before = after // only the state after the acknowledged operation is acceptable
	}
	st, d, err := openImage()
	defer func() {
		if st != nil {
			st.Close()
		}
		if d != "" {
			os.RemoveAll(d)
		}
	}()
	ctx := fmt.Sprintf("interrupted op %s, %s %s", last, img.model, img.label)
	sigCtx := fmt.Sprintf("op=%s model=%s point=%s", last.K, img.model, sigPoint(img.label))
	if err != nil {
		return "C17/R1-reopen-fails " + sigCtx, fmt.Sprintf("%v | %s", err, ctx)
	}
	S, T := st.NextSenderMsgSeqNum(), st.NextTargetMsgSeqNum()
	// R3: each counter is the value before or after the interrupted operation
	if S != before.S && S != after.S {
		return "C17/R3-sender-counter " + sigCtx, fmt.Sprintf("recovered NextSender %d, before %d, after %d | %s", S, before.S, after.S, ctx)
	}
	if T != before.T && T != after.T {
		return "C17/R3-target-counter " + sigCtx, fmt.Sprintf("recovered NextTarget %d, before %d, after %d | %s", T, before.T, after.T, ctx)
	}
	// messages: per sequence number, nothing torn or foreign; completed saves intact
	maxSeq := before.hi
	if after.hi > maxSeq {
		maxSeq = after.hi
	}
	isReset := last.K == "reset"
	for seq := 1; seq <= maxSeq+1; seq++ {
		got, gerr := st.GetMessages(seq, seq)
		wb, inBefore := before.M[seq]
		wa, inAfter := after.M[seq]
		completed := inBefore && !isReset
		if gerr != nil {
			if completed {
				return "C17/R2-completed-save-unreadable " + sigCtx, fmt.Sprintf("GetMessages(%d,%d): %v | %s", seq, seq, gerr, ctx)
			}
			// an error for an uncompleted number is not "bytes returned"; but the outbound counter must not claim it
			if inAfter && S == after.S && after.S > before.S {
				return "C17/R4-counter-ahead-of-message " + sigCtx, fmt.Sprintf("NextSender %d says %d was used but reading it fails: %v | %s", S, seq, gerr, ctx)
			}
			continue
		}
		for _, g := range got {
			if !(inBefore && bytes.Equal(g, wb)) && !(inAfter && bytes.Equal(g, wa)) {
				return "C17/R5-torn-or-foreign-bytes " + sigCtx, fmt.Sprintf("sequence number %d returns %q | %s", seq, trunc(g), ctx)
			}
		}
		if len(got) > 1 {
			return "C17/R5-duplicate-entries " + sigCtx, fmt.Sprintf("sequence number %d returns %d messages | %s", seq, len(got), ctx)
		}
		if completed && len(got) == 0 {
			return "C17/R2-completed-save-lost " + sigCtx, fmt.Sprintf("message %d (saved before the interrupted operation) is gone | %s", seq, ctx)
		}
		if inAfter && !inBefore && len(got) == 0 && S == after.S && after.S > before.S && seq == before.S {
			return "C17/R4-counter-ahead-of-message " + sigCtx, fmt.Sprintf("NextSender %d says %d was used but it is not stored | %s", S, seq, ctx)
		}
	}
	if !isReset && S > 1 {
		// the range the engine itself reads when it answers a ResendRequest: everything below the outbound counter
		if all, aerr := st.GetMessages(1, S-1); aerr != nil {
			return "C17/R2-range-read-fails " + sigCtx, fmt.Sprintf("GetMessages(1,%d): %v | %s", S-1, aerr, ctx)
		} else {
			n := 0
			for s := 1; s <= S-1; s++ {
				if _, ok := before.M[s]; ok {
					n++
				}
			}
			if len(all) < n {
				return "C17/R2-range-read-incomplete " + sigCtx, fmt.Sprintf("GetMessages(1,%d) returns %d messages, %d were saved before | %s", S-1, len(all), n, ctx)
			}
		}
	}
	// follow-up: the application carries on from the recovered counters
	st.Close()
	st = nil
	for _, fu := range []string{"saveincr", "reset+saveincr", "reopen"} {
		fs, fd, ferr := openImage()
		if ferr != nil {
			if fd != "" {
				os.RemoveAll(fd)
			}
			return "C17/R1-second-reopen-fails " + sigCtx, ferr.Error()
		}
		sessionWhole := false
		if fu == "reopen" {
			// the creation-time rule is judged only when the image's session file was empty, absent or whole: over a
			// torn one the store writes the new text without truncating, and whether the result parses depends on the
			// number of digits the clock happens to print (not decidable by enumeration; see DESIGN §4)
			sessionWhole = true
			if names, _ := filepath.Glob(filepath.Join(fd, "*.session")); len(names) == 1 {
				if b, err := os.ReadFile(names[0]); err == nil && len(b) > 0 {
					var tm time.Time
					sessionWhole = tm.UnmarshalText(b) == nil
				}
			}
		}
		r, w := c17FollowUp(fs, fu, before, after, isReset, sessionWhole)
		fs.Close()
		os.RemoveAll(fd)
		if r != "" {
			return r + " followup=" + fu + " " + sigCtx, w + " | after " + ctx
		}
	}
	return "", ""
}

func sigPoint(label string) string {
	if i := strings.Index(label, "cut at byte"); i >= 0 {
		return strings.TrimSpace(label[:i]) + " torn"
	}
	return label
}

// c17FollowUp: continue using the recovered store; the next save must come back intact and alone.
func c17FollowUp(st quickfix.MessageStore, kind string, before, after c17State, isReset bool, sessionWhole bool) (string, string) {
	msg := []byte("FOLLOW-UP-MESSAGE")
	switch kind {
	case "reopen":
		// the recovered store has one creation time: a Refresh does not move it
		ct := st.CreationTime()
		if err := st.Refresh(); err != nil {
			return "C17/R1-refresh-fails", err.Error()
		}
		if sessionWhole && !st.CreationTime().Equal(ct) {
			return "C17/R6-creation-time-moves", fmt.Sprintf("creation time of the recovered store was %v and is %v after Refresh", ct, st.CreationTime())
		}
		return "", ""
	case "reset+saveincr":
		if err := st.Reset(); err != nil {
			return "C17/F-reset-fails", err.Error()
		}
	}
	seq := st.NextSenderMsgSeqNum()
	// (after an interrupted Reset whose counter already reads as after the reset a new epoch has begun: the next
	// save is the first of it, whatever the old epoch had stored)
	newEpoch := isReset && seq == after.S && seq != before.S
	if kind != "reset+saveincr" && !newEpoch && (seq <= before.hi || (seq <= after.hi && seq != before.S)) {
		return "", "" // saving below the highest saved number is outside the domain (ascending saves per epoch)
	}
	if err := st.SaveMessageAndIncrNextSenderMsgSeqNum(seq, msg); err != nil {
		return "C17/F-save-fails", err.Error()
	}
	got, err := st.GetMessages(seq, seq)
	if err != nil {
		return "C17/F-saved-message-unreadable", fmt.Sprintf("after saving %d: %v", seq, err)
	}
	// the number may legitimately hold the interrupted message as well only if that save had completed; a torn
	// or foreign neighbour is latent damage
	okOther := func(g []byte) bool {
		if b, ok := after.M[seq]; ok && bytes.Equal(g, b) && kind != "reset+saveincr" {
			return true
		}
		return false
	}
	found := false
	for _, g := range got {
		if bytes.Equal(g, msg) {
			found = true
		} else if !okOther(g) {
			return "C17/R5-torn-or-foreign-bytes-later", fmt.Sprintf("after saving %d it also returns %q", seq, trunc(g))
		}
	}
	if !found {
		return "C17/F-saved-message-lost", fmt.Sprintf("message saved under %d after recovery is not returned", seq)
	}
	if kind != "reset+saveincr" && !isReset {
		for s, b := range before.M {
			if s == seq {
				continue
			}
			g, err := st.GetMessages(s, s)
			if err != nil || len(g) == 0 || !bytes.Equal(g[0], b) {
				return "C17/R2-completed-save-lost-later", fmt.Sprintf("message %d no longer intact after a follow-up save (%v)", s, err)
			}
		}
	}
	return "", ""
}

type c17Case struct {
	Hist  []c17Op `json:"history"`
	Label string  `json:"crash_label"`
	Model string  `json:"crash_model"`
}

func c17Replay(cs c17Case) (bool, string, error) {
	scratch, cleanup := core.Scratch("c17r")
	defer cleanup()
	images, before, after, ok, err := c17Images(cs.Hist, scratch)
	if err != nil || !ok {
		return false, "", err
	}
	for _, img := range images {
		if img.label == cs.Label && img.model == cs.Model {
			r, w := c17Judge(img, cs.Hist[len(cs.Hist)-1], before, after, scratch)
			return r != "", r + ": " + w, nil
		}
	}
	return false, "crash image not produced any more", nil
}

func init() {
	register("C17", core.LevelFault, runC17)
	core.RegisterReplay("C17/file", func(data json.RawMessage) (bool, string, error) {
		var cs c17Case
		if err := json.Unmarshal(data, &cs); err != nil {
			return false, "", err
		}
		return c17Replay(cs)
	})
}

func runC17(c *core.Ctx) {
	quick := c.Quick()
	if quick {
		c.SetDeadline(5 * time.Minute)
	} else {
		c.SetDeadline(45 * time.Minute)
	}
	n := 3
	if !quick {
		n = 4
	}
	c.SetRule(fmt.Sprintf("file store (FileStoreSync=Y): every history of <= %d operations over {save-and-increment, save, increment target, set sender/target, Reset, Refresh, reopen}; the last operation is interrupted at every hook point, with the in-flight write cut at every byte (append: every prefix; rewrite: new[:k]+old[k:]), under the process-crash model (completed writes kept) and the power-loss model (per file only what was last fsynced); and, once the operation has returned, the power-loss image must show its effect; every distinct image is reopened by the real store, checked (R1 reopen, R2 completed saves, R3 counters, R4 counter vs message, R5 no torn/foreign bytes) and continued with three follow-up scenarios. SQL store: every driver call of save-and-increment (and of the other operations) is failed in turn on sqlite", n))
	c.Assume("file creation/removal is durable when performed; within one write any prefix may reach the disk", "between operations everything written has been fsynced (FileStoreSync=Y)",
		"distinct = distinct (history, crash image) pairs; identical images of one history are judged once")
	scratch, cleanup := core.Scratch("c17")
	defer cleanup()
	alpha := []c17Op{{K: "saveincr"}, {K: "save"}, {K: "incrT"}, {K: "setS", Arg: 7}, {K: "setT", Arg: 10}, {K: "reset"}, {K: "refresh"}, {K: "reopen"}}
	var hists [][]c17Op
	var rec func(h []c17Op)
	rec = func(h []c17Op) {
		if len(h) > 0 {
			hists = append(hists, append([]c17Op{}, h...))
		}
		if len(h) == n {
			return
		}
		for _, o := range alpha {
			rec(append(h, o))
		}
	}
	rec(nil)
	c.Set("histories", len(hists))
	type job struct {
		hist          []c17Op
		img           c17Image
		before, after c17State
	}
	jobs := make(chan job, 1024)
	var evals, imagesTotal int64
	var wg sync.WaitGroup
	for wk := 0; wk < runtime.NumCPU(); wk++ {
		wg.Add(1)
		go func() {
			defer wg.Done()
			for j := range jobs {
				c17HookMu.RLock() // judging drives real stores too: never while the global hook is installed
				r, w := c17Judge(j.img, j.hist[len(j.hist)-1], j.before, j.after, scratch)
				c17HookMu.RUnlock()
				atomic.AddInt64(&evals, 1)
				if r != "" {
					names := []string{}
					for _, o := range j.hist {
						names = append(names, o.String())
					}
					c.Violation(r, w+" | history: "+strings.Join(names, "; "), "C17/file", c17Case{Hist: j.hist, Label: j.img.label, Model: j.img.model})
				}
			}
		}()
	}
	sampled := 0
	for hi, h := range hists {
		if hi%64 == 0 && c.Expired() {
			break
		}
		images, before, after, ok, err := c17Images(h, scratch)
		if err != nil {
			c.EngineError(fmt.Sprintf("history %v: %v", h, err))
			continue
		}
		if !ok {
			continue
		}
		seen := map[string]bool{}
		for _, img := range images {
			k := fmt.Sprintf("%s|%v|%s", img.model, img.acked, img.img.key())
			if seen[k] {
				continue
			}
			seen[k] = true
			atomic.AddInt64(&imagesTotal, 1)
			jobs <- job{h, img, before, after}
		}
		if sampled < 5 && len(images) > 20 {
			sampled++
			names := []string{}
			for _, o := range h {
				names = append(names, o.String())
			}
			c.Sample(map[string]any{"history": names, "crash_images": len(images), "distinct_images": len(seen), "example": images[len(images)/2].label + " / " + images[len(images)/2].model})
		}
	}
	close(jobs)
	wg.Wait()
	c.AddEval(evals)
	c.DistinctN(imagesTotal)
	c.Set("file_store_crash_images_judged", imagesTotal)
	runC17SQL(c, scratch)
}
