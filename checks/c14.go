package checks

import (
	"encoding/json"
	"fmt"
	"math"
	"math/big"
	"runtime"
	"strconv"
	"strings"
	"sync"
	"sync/atomic"
	"time"

	"github.com/quagmt/udecimal"
	"github.com/quickfixgo/quickfix"
	"github.com/shopspring/decimal"

	"verif/internal/core"
)

// ---------- C14: field value types convert canonically and reject everything else ----------

type c14Case struct {
	Kind string `json:"kind"` // int-text float-text bool-text ts-text int-rt float-rt ts-rt dec-rt udec-rt str-rt
	Text string `json:"text,omitempty"`
	A    int64  `json:"a,omitempty"`
	B    int64  `json:"b,omitempty"`
	F    string `json:"f,omitempty"`
	Prev string `json:"prev,omitempty"` // text kinds: the variable read this text before (a value object may be read into again)
}

// c14Prev: earlier contents of the variable a text is read into, per kind ("" = fresh variable).
var c14Prev = map[string][]string{
	"int-text":   {"", "-77"},
	"float-text": {"", "-1.5"},
	"bool-text":  {"", "Y"},
	"ts-text":    {"", "20240229-23:59:59", "20240229-23:59:59.123", "20240229-23:59:59.123456", "20240229-23:59:59.123456789"},
}

func safely(f func()) (pan string) {
	defer func() {
		if r := recover(); r != nil {
			pan = fmt.Sprint(r)
		}
	}()
	f()
	return
}

// ---- independent recognisers (FIX grammar) ----

func isDigits(s string) bool {
	if s == "" {
		return false
	}
	for i := 0; i < len(s); i++ {
		if s[i] < '0' || s[i] > '9' {
			return false
		}
	}
	return true
}

// intGrammar: optional '-' followed by one or more digits. Returns value when it fits an int64.
func intGrammar(s string) (ok bool, val int64, fits bool) {
	t := strings.TrimPrefix(s, "-")
	if !isDigits(t) {
		return false, 0, false
	}
	z := new(big.Int)
	z.SetString(s, 10)
	if !z.IsInt64() || len(t) > 18 {
		return true, 0, false
	}
	return true, z.Int64(), true
}

// floatGrammar: strict = -?digits(.digits)?; lenient additionally allows a missing integer or fraction part.
func floatGrammar(s string) (strict, lenient bool) {
	t := strings.TrimPrefix(s, "-")
	if t == "" {
		return false, false
	}
	parts := strings.Split(t, ".")
	switch len(parts) {
	case 1:
		ok := isDigits(parts[0])
		return ok, ok
	case 2:
		a, b := parts[0], parts[1]
		if isDigits(a) && isDigits(b) {
			return true, true
		}
		if (isDigits(a) && b == "") || (a == "" && isDigits(b)) {
			return false, true
		}
	}
	return false, false
}

func daysIn(y, m int) int {
	switch m {
	case 4, 6, 9, 11:
		return 30
	case 2:
		if y%4 == 0 && (y%100 != 0 || y%400 == 0) {
			return 29
		}
		return 28
	}
	return 31
}

// tsGrammar: YYYYMMDD-HH:MM:SS[.sss|.ssssss|.sssssssss]; seconds 00-59 (60 is out of domain → undecided).
func tsGrammar(s string) (ok, undecided bool, t time.Time, prec quickfix.TimestampPrecision) {
	n := len(s)
	fr := 0
	switch n {
	case 17:
		prec = quickfix.Seconds
	case 21:
		prec, fr = quickfix.Millis, 3
	case 24:
		prec, fr = quickfix.Micros, 6
	case 27:
		prec, fr = quickfix.Nanos, 9
	default:
		return false, false, t, prec
	}
	if s[8] != '-' || s[11] != ':' || s[14] != ':' || !isDigits(s[0:8]) || !isDigits(s[9:11]) || !isDigits(s[12:14]) || !isDigits(s[15:17]) {
		return false, false, t, prec
	}
	if fr > 0 && (s[17] != '.' || !isDigits(s[18:])) {
		return false, false, t, prec
	}
	y, _ := strconv.Atoi(s[0:4])
	mo, _ := strconv.Atoi(s[4:6])
	d, _ := strconv.Atoi(s[6:8])
	h, _ := strconv.Atoi(s[9:11])
	mi, _ := strconv.Atoi(s[12:14])
	se, _ := strconv.Atoi(s[15:17])
	if mo < 1 || mo > 12 || d < 1 || d > daysIn(y, mo) || h > 23 || mi > 59 || se > 60 {
		return false, false, t, prec
	}
	if se == 60 {
		return false, true, t, prec
	}
	ns := 0
	if fr > 0 {
		v, _ := strconv.Atoi(s[18:])
		for i := fr; i < 9; i++ {
			v *= 10
		}
		ns = v
	}
	return true, false, time.Date(y, time.Month(mo), d, h, mi, se, ns, time.UTC), prec
}

// ---- evaluation ----

func c14Eval(cs c14Case) (rule, what string) {
	pan := safely(func() { rule, what = c14EvalInner(cs) })
	if pan != "" {
		return "C14/panic kind=" + cs.Kind, fmt.Sprintf("%+v: %s", cs, pan)
	}
	return
}

func c14EvalInner(cs c14Case) (string, string) {
	switch cs.Kind {
	case "int-text":
		var v quickfix.FIXInt
		if cs.Prev != "" {
			_ = v.Read([]byte(cs.Prev))
		}
		err := v.Read([]byte(cs.Text))
		ok, val, fits := intGrammar(cs.Text)
		if ok && !fits {
			return "", "" // beyond int64: out of domain
		}
		if ok && err != nil {
			return "C14/int-rejects-valid", fmt.Sprintf("int text %q rejected: %v", cs.Text, err)
		}
		if !ok && err == nil {
			return "C14/int-accepts-invalid", fmt.Sprintf("int text %q accepted as %d", cs.Text, v)
		}
		if ok && int64(v) != val {
			return "C14/int-wrong-value", fmt.Sprintf("int text %q read as %d", cs.Text, v)
		}
		if ok && cs.Text == strconv.FormatInt(val, 10) {
			if w := string(v.Write()); w != cs.Text {
				return "C14/int-canonical-roundtrip", fmt.Sprintf("canonical %q written back as %q", cs.Text, w)
			}
		}
	case "float-text":
		var v quickfix.FIXFloat
		if cs.Prev != "" {
			_ = v.Read([]byte(cs.Prev))
		}
		err := v.Read([]byte(cs.Text))
		strict, lenient := floatGrammar(cs.Text)
		if strict && err != nil {
			return "C14/float-rejects-valid", fmt.Sprintf("float text %q rejected: %v", cs.Text, err)
		}
		if !lenient && err == nil {
			return "C14/float-accepts-invalid", fmt.Sprintf("float text %q accepted as %v", cs.Text, float64(v))
		}
		if strict {
			r, _ := new(big.Rat).SetString(cs.Text)
			want, _ := r.Float64()
			if float64(v) != want && !(want == 0 && float64(v) == 0) {
				return "C14/float-wrong-value", fmt.Sprintf("float text %q read as %v, denotes %v", cs.Text, float64(v), want)
			}
		}
	case "bool-text":
		var v quickfix.FIXBoolean
		if cs.Prev != "" {
			_ = v.Read([]byte(cs.Prev))
		}
		err := v.Read([]byte(cs.Text))
		ok := cs.Text == "Y" || cs.Text == "N"
		if ok != (err == nil) {
			return "C14/bool-grammar", fmt.Sprintf("boolean text %q: accepted=%v", cs.Text, err == nil)
		}
		if ok && bool(v) != (cs.Text == "Y") {
			return "C14/bool-wrong-value", cs.Text
		}
		if ok && string(v.Write()) != cs.Text {
			return "C14/bool-roundtrip", cs.Text
		}
	case "ts-text":
		var v quickfix.FIXUTCTimestamp
		if cs.Prev != "" {
			_ = v.Read([]byte(cs.Prev))
		}
		err := v.Read([]byte(cs.Text))
		ok, undecided, t, prec := tsGrammar(cs.Text)
		if undecided {
			return "", ""
		}
		if ok && err != nil {
			return "C14/timestamp-rejects-valid", fmt.Sprintf("timestamp %q rejected: %v", cs.Text, err)
		}
		if !ok && err == nil {
			return "C14/timestamp-accepts-invalid", fmt.Sprintf("timestamp text %q accepted as %v", cs.Text, v.Time)
		}
		if ok {
			if !v.Time.Equal(t) || v.Precision != prec {
				return "C14/timestamp-wrong-value", fmt.Sprintf("timestamp %q read as %v (precision %d), denotes %v (precision %d)", cs.Text, v.Time, v.Precision, t, prec)
			}
			if w := string(v.Write()); w != cs.Text {
				return "C14/timestamp-canonical-roundtrip", fmt.Sprintf("%q written back as %q", cs.Text, w)
			}
		}
	case "int-rt":
		v := quickfix.FIXInt(cs.A)
		var r quickfix.FIXInt
		txt := v.Write()
		if err := r.Read(txt); err != nil || r != v {
			return "C14/int-roundtrip", fmt.Sprintf("%d written as %q read back as %d (%v)", cs.A, txt, r, err)
		}
		if string(txt) != strconv.FormatInt(cs.A, 10) {
			return "C14/int-write", fmt.Sprintf("%d written as %q", cs.A, txt)
		}
	case "float-rt":
		f, _ := strconv.ParseFloat(cs.F, 64)
		v := quickfix.FIXFloat(f)
		var r quickfix.FIXFloat
		txt := v.Write()
		if err := r.Read(txt); err != nil || float64(r) != f {
			return "C14/float-roundtrip", fmt.Sprintf("%v written as %q read back as %v (%v)", f, txt, float64(r), err)
		}
		if strict, _ := floatGrammar(string(txt)); !strict {
			return "C14/float-write-not-fix", fmt.Sprintf("%v written as %q", f, txt)
		}
	case "ts-rt":
		// A = unix seconds, B = nanoseconds; Text = zone name; F = precision
		loc := time.UTC
		if cs.Text != "" && cs.Text != "UTC" {
			off, _ := strconv.Atoi(cs.Text)
			loc = time.FixedZone("Z"+cs.Text, off)
		}
		t := time.Unix(cs.A, cs.B).In(loc)
		p, _ := strconv.Atoi(cs.F)
		prec := quickfix.TimestampPrecision(p)
		v := quickfix.FIXUTCTimestamp{Time: t, Precision: prec}
		txt := v.Write()
		var r quickfix.FIXUTCTimestamp
		if err := r.Read(txt); err != nil {
			return "C14/timestamp-roundtrip-read", fmt.Sprintf("%v written as %q not readable: %v", t, txt, err)
		}
		unit := map[quickfix.TimestampPrecision]time.Duration{quickfix.Seconds: time.Second, quickfix.Millis: time.Millisecond, quickfix.Micros: time.Microsecond, quickfix.Nanos: time.Nanosecond}[prec]
		want := t.Truncate(unit)
		if !r.Time.Equal(want) || r.Precision != prec {
			return "C14/timestamp-roundtrip", fmt.Sprintf("%v (zone %s, precision %d) written as %q read back as %v precision %d; expected %v", t, loc, prec, txt, r.Time, r.Precision, want.UTC())
		}
	case "dec-rt":
		// value = A / 10^B, scale = F
		d := decimal.New(cs.A, -int32(cs.B))
		sc, _ := strconv.Atoi(cs.F)
		v := quickfix.FIXDecimal{Decimal: d, Scale: int32(sc)}
		txt := string(v.Write())
		if strict, _ := floatGrammar(txt); !strict {
			return "C14/decimal-write-not-fix", fmt.Sprintf("%s scale %d written as %q", d, sc, txt)
		}
		if i := strings.IndexByte(txt, '.'); (sc == 0 && i >= 0) || (sc > 0 && len(txt)-i-1 != sc) {
			return "C14/decimal-write-scale", fmt.Sprintf("%s scale %d written as %q", d, sc, txt)
		}
		var r quickfix.FIXDecimal
		if err := r.Read([]byte(txt)); err != nil {
			return "C14/decimal-roundtrip-read", fmt.Sprintf("%q: %v", txt, err)
		}
		tv, _ := new(big.Rat).SetString(txt)
		rv, _ := new(big.Rat).SetString(r.Decimal.String())
		if tv.Cmp(rv) != 0 {
			return "C14/decimal-roundtrip", fmt.Sprintf("text %q read back as %s", txt, r.Decimal)
		}
		// written text is the value at the written scale: within half a unit of the last place
		dv, _ := new(big.Rat).SetString(d.String())
		diff := new(big.Rat).Sub(tv, dv)
		diff.Abs(diff)
		half := new(big.Rat).SetFrac(big.NewInt(1), new(big.Int).Mul(big.NewInt(2), new(big.Int).Exp(big.NewInt(10), big.NewInt(int64(sc)), nil)))
		if diff.Cmp(half) > 0 {
			return "C14/decimal-write-value", fmt.Sprintf("%s at scale %d written as %q", d, sc, txt)
		}
	case "udec-rt":
		if cs.A < 0 {
			return "", ""
		}
		d, err := udecimal.Parse(decimal.New(cs.A, -int32(cs.B)).String())
		if err != nil {
			return "", ""
		}
		sc, _ := strconv.Atoi(cs.F)
		v := quickfix.FIXUDecimal{Decimal: d, Scale: uint8(sc)}
		txt := string(v.Write())
		if strict, _ := floatGrammar(txt); !strict {
			return "C14/udecimal-write-not-fix", fmt.Sprintf("%s scale %d written as %q", d, sc, txt)
		}
		var r quickfix.FIXUDecimal
		if err := r.Read([]byte(txt)); err != nil {
			return "C14/udecimal-roundtrip-read", fmt.Sprintf("%q: %v", txt, err)
		}
		tv, _ := new(big.Rat).SetString(txt)
		rv, _ := new(big.Rat).SetString(r.Decimal.String())
		if tv.Cmp(rv) != 0 {
			return "C14/udecimal-roundtrip", fmt.Sprintf("text %q read back as %s", txt, r.Decimal)
		}
		dv, _ := new(big.Rat).SetString(d.String())
		diff := new(big.Rat).Sub(dv, tv) // truncation: 0 <= d - text < one unit of the last place
		one := new(big.Rat).SetFrac(big.NewInt(1), new(big.Int).Exp(big.NewInt(10), big.NewInt(int64(sc)), nil))
		if diff.Sign() < 0 || diff.Cmp(one) >= 0 {
			return "C14/udecimal-write-value", fmt.Sprintf("%s at scale %d written as %q", d, sc, txt)
		}
	case "dec-holder":
		// a holder prepared with the scale of the field reads a canonical text and writes it back
		sc, _ := strconv.Atoi(cs.F)
		v := quickfix.FIXDecimal{Scale: int32(sc)}
		if cs.Prev != "" {
			_ = v.Read([]byte(cs.Prev))
		}
		if err := v.Read([]byte(cs.Text)); err != nil {
			return "C14/decimal-rejects-valid", fmt.Sprintf("%q: %v", cs.Text, err)
		}
		if w := string(v.Write()); w != cs.Text {
			return "C14/decimal-canonical-roundtrip", fmt.Sprintf("holder with scale %d read %q and wrote back %q", sc, cs.Text, w)
		}
		u := quickfix.FIXUDecimal{Scale: uint8(sc)}
		if !strings.HasPrefix(cs.Text, "-") {
			if err := u.Read([]byte(cs.Text)); err != nil {
				return "C14/udecimal-rejects-valid", fmt.Sprintf("%q: %v", cs.Text, err)
			}
			if w := string(u.Write()); w != cs.Text {
				return "C14/udecimal-canonical-roundtrip", fmt.Sprintf("holder with scale %d read %q and wrote back %q", sc, cs.Text, w)
			}
		}
	case "str-rt":
		var s quickfix.FIXString
		s.Read([]byte(cs.Text))
		var b quickfix.FIXBytes
		b.Read([]byte(cs.Text))
		if string(s.Write()) != cs.Text || string(b.Write()) != cs.Text || s.String() != cs.Text {
			return "C14/string-roundtrip", cs.Text
		}
		// a string value is a value: read from a scratch buffer that is then used for something else, it keeps
		// what it read
		scratch := []byte(cs.Text)
		var s2 quickfix.FIXString
		s2.Read(scratch)
		for i := range scratch {
			scratch[i] = 'Z'
		}
		if s2.String() != cs.Text || string(s2.Write()) != cs.Text {
			return "C14/string-shares-the-bytes-it-was-read-from", fmt.Sprintf("read %q, the source bytes were overwritten afterwards, the value is now %q", cs.Text, s2.String())
		}
	}
	return "", ""
}

func init() {
	register("C14", core.LevelExploration, runC14)
	core.RegisterReplay("C14/case", func(data json.RawMessage) (bool, string, error) {
		var cs c14Case
		if err := json.Unmarshal(data, &cs); err != nil {
			return false, "", err
		}
		r, w := c14Eval(cs)
		return r != "", r + ": " + w, nil
	})
}

func allStrings(alpha []byte, maxLen int, f func(s string)) {
	buf := make([]byte, 0, maxLen)
	var rec func()
	rec = func() {
		f(string(buf))
		if len(buf) == maxLen {
			return
		}
		for _, c := range alpha {
			buf = append(buf, c)
			rec()
			buf = buf[:len(buf)-1]
		}
	}
	rec()
}

func runC14(c *core.Ctx) {
	quick := c.Quick()
	if quick {
		c.SetDeadline(4 * time.Minute)
	} else {
		c.SetDeadline(40 * time.Minute)
	}
	c.SetRule("int: all strings <= L over {0,1,9,-,+,space,.,e,a}; float: all strings <= L over {0,1,9,.,-,+,e,E,space,x,_,n,i} plus every letter-case and sign variant of inf/infinity/nan; every text read into a fresh variable and into one that had read another value (timestamps: one of each precision) before; boolean: all strings <= 2 over all 256 bytes; timestamp: ~40 canonical texts x every single and double position x 14 replacement characters, plus truncations and extensions; round trips over value grids (ints, floats k/2^n and shortest-repr corner cases, timestamps x precision x zone, decimals/udecimals x scale 0..6, canonical decimal texts read into a holder prepared with the field's scale and written back); hand-written recognisers of the FIX grammars as oracle")
	c.Assume("integers that do not fit int64 and seconds=60 are outside the domain", "float texts with a missing integer or fraction part ('.5', '5.') are not judged",
		"no random sampling beyond the length bound (the statement's 'randomly beyond' is not covered)")
	jobs := make(chan c14Case, 8192)
	var evals int64
	var wg sync.WaitGroup
	for wk := 0; wk < runtime.NumCPU(); wk++ {
		wg.Add(1)
		go func() {
			defer wg.Done()
			var n int64
			for cs := range jobs {
				prevs := c14Prev[cs.Kind]
				if prevs == nil {
					prevs = []string{cs.Prev}
				}
				for _, pv := range prevs {
					cs.Prev = pv
					rule, what := c14Eval(cs)
					n++
					if rule != "" {
						if pv != "" {
							rule += " reused-variable"
							what += fmt.Sprintf(" (the variable had read %q before)", pv)
						}
						c.Violation(rule, what, "C14/case", cs)
					}
				}
			}
			atomic.AddInt64(&evals, n)
		}()
	}
	L := 6
	Lf := 6
	if !quick {
		L, Lf = 7, 7
	}
	allStrings([]byte("019-+ .ea"), L, func(s string) { jobs <- c14Case{Kind: "int-text", Text: s} })
	for _, s := range []string{"0000000000000000000001", "-000", "9223372036854775807", "-9223372036854775808", "123456789012345678"} {
		jobs <- c14Case{Kind: "int-text", Text: s}
	}
	allStrings([]byte("019.-+eE x_ni"), Lf, func(s string) { jobs <- c14Case{Kind: "float-text", Text: s} })
	for _, s := range []string{"0.1", "00023.230", "-0.0", "123456789012345.678", "0.000000000000001", "1797693134862315708145274237317043567981", "Inf", "NaN", "0x10", "1e5", "1_0"} {
		jobs <- c14Case{Kind: "float-text", Text: s}
	}
	// the words strconv.ParseFloat accepts beyond numerals, in every letter case, signed and unsigned
	for _, w := range []string{"inf", "infinity", "nan", "infi", "in", "na"} {
		for mask := 0; mask < 1<<len(w); mask++ {
			b := []byte(w)
			for i := range b {
				if mask>>i&1 == 1 {
					b[i] -= 32
				}
			}
			for _, sign := range []string{"", "+", "-"} {
				jobs <- c14Case{Kind: "float-text", Text: sign + string(b)}
			}
		}
	}
	for a := 0; a < 256; a++ {
		jobs <- c14Case{Kind: "bool-text", Text: string([]byte{byte(a)})}
		for b := 0; b < 256; b++ {
			jobs <- c14Case{Kind: "bool-text", Text: string([]byte{byte(a), byte(b)})}
		}
	}
	jobs <- c14Case{Kind: "bool-text", Text: ""}
	c.Sample(c14Case{Kind: "float-text", Text: "-1.e"})
	// timestamps
	var canon []string
	for _, d := range []string{"20240229", "20230228", "20001231", "19700101", "99991231", "00010101", "20240630", "21000228"} {
		for _, t := range []string{"00:00:00", "23:59:59", "12:30:45"} {
			canon = append(canon, d+"-"+t)
		}
	}
	fracs := []string{"", ".000", ".999", ".000000", ".123456", ".000000000", ".999999999"}
	repl := []byte("0123569-:., +TZ")
	ts := 0
	for i, b := range canon {
		for j, fr := range fracs {
			s := b + fr
			ts++
			jobs <- c14Case{Kind: "ts-text", Text: s}
			for p := 0; p < len(s); p++ {
				for _, r := range repl {
					if s[p] == r {
						continue
					}
					m := []byte(s)
					m[p] = r
					jobs <- c14Case{Kind: "ts-text", Text: string(m)}
					if quick && (i+j)%3 != 0 {
						continue
					}
					for q := p + 1; q < len(s); q++ {
						for _, r2 := range repl {
							if s[q] == r2 {
								continue
							}
							m2 := append([]byte{}, m...)
							m2[q] = r2
							jobs <- c14Case{Kind: "ts-text", Text: string(m2)}
						}
					}
				}
			}
			for k := 0; k <= len(s); k++ {
				jobs <- c14Case{Kind: "ts-text", Text: s[:k]}
			}
			for _, ext := range []string{"0", "00", ".", ".0", ".00", ".0000", ".00000", "Z", " "} {
				jobs <- c14Case{Kind: "ts-text", Text: s + ext}
			}
		}
	}
	c.Set("canonical_timestamps", ts)
	c.Sample(c14Case{Kind: "ts-text", Text: "20240229-23:59:59,999"})
	// invalid calendar values
	for _, s := range []string{"20230229-00:00:00", "20240230-00:00:00", "20241301-00:00:00", "20240001-00:00:00", "20240100-00:00:00", "20240431-00:00:00",
		"20240101-24:00:00", "20240101-23:60:00", "20240101-23:59:60", "20240101-23:59:61", "21000229-00:00:00"} {
		jobs <- c14Case{Kind: "ts-text", Text: s}
	}
	// round trips
	for a := int64(-10000); a <= 10000; a++ {
		jobs <- c14Case{Kind: "int-rt", A: a}
	}
	for _, a := range []int64{1 << 62, -(1 << 62), math.MaxInt64, math.MinInt64 + 1, 999999, 1000000, 123456789012} {
		jobs <- c14Case{Kind: "int-rt", A: a}
	}
	for k := -2000; k <= 2000; k++ {
		for n := 0; n <= 10; n += 2 {
			jobs <- c14Case{Kind: "float-rt", F: strconv.FormatFloat(float64(k)/float64(int(1)<<uint(n)), 'g', -1, 64)}
		}
		jobs <- c14Case{Kind: "float-rt", F: strconv.FormatFloat(float64(k)/1000, 'g', -1, 64)}
	}
	for _, f := range []string{"0.1", "0.3", "1e21", "1e22", "1e-7", "123456789012345.67", "5e-324", "1.7976931348623157e308", "4.35", "2.675", "-0.0"} {
		jobs <- c14Case{Kind: "float-rt", F: f}
	}
	for _, sec := range []int64{0, 1, 86399, 951782399, 1709251199, 1709251200, 1719791999, 4102444799, 253402300799, -1, -62135596800} {
		for _, ns := range []int64{0, 1, 999, 1000, 123456789, 999999999, 500000000, 999000000} {
			for p := 0; p < 4; p++ {
				for _, zone := range []string{"UTC", "19800", "-28800", "3600"} {
					jobs <- c14Case{Kind: "ts-rt", A: sec, B: ns, Text: zone, F: strconv.Itoa(p)}
				}
			}
		}
	}
	for _, a := range []int64{0, 1, 5, 15, 25, 125, 999, 1000, 123456, 1234567, 99999999, 5000000, 4999999, 1, -1, -15, -125, -999999, 105, 995, 9995, 1005} {
		for b := int64(0); b <= 7; b++ {
			for sc := 0; sc <= 6; sc++ {
				jobs <- c14Case{Kind: "dec-rt", A: a, B: b, F: strconv.Itoa(sc)}
				jobs <- c14Case{Kind: "udec-rt", A: a, B: b, F: strconv.Itoa(sc)}
			}
		}
	}
	for _, a := range []int64{0, 1, 5, 15, 150, 999, 1000, 123456, 5000000, -1, -15, -150, -999999} {
		for sc := 0; sc <= 6; sc++ {
			txt := decimal.New(a, -int32(sc)).StringFixed(int32(sc))
			jobs <- c14Case{Kind: "dec-holder", Text: txt, F: strconv.Itoa(sc)}
			jobs <- c14Case{Kind: "dec-holder", Text: txt, F: strconv.Itoa(sc), Prev: "77.125"}
		}
	}
	for _, s := range []string{"", "A", "a=b", "\x00\xff", "multi word", strings.Repeat("x", 5000)} {
		jobs <- c14Case{Kind: "str-rt", Text: s}
	}
	close(jobs)
	wg.Wait()
	c.AddEval(evals)
	c.DistinctN(evals)
	c.Sample(c14Case{Kind: "dec-rt", A: 995, B: 3, F: "2"})
}
