package checks

import (
	"fmt"
	"os"
	"runtime/debug"
)

// Workers run bounded-exhaustive cases in sub-processes so that fatal runtime errors and hangs are
// attributed to a concrete input by the parent. Registered by name.
var workers = map[string]func(args []string) int{}

func RunWorker(args []string) int {
	debug.SetMaxStack(64 << 20) // a runaway recursion dies quickly instead of eating 1 GB first
	if len(args) == 0 {
		return 2
	}
	f := workers[args[0]]
	if f == nil {
		fmt.Fprintln(os.Stderr, "unknown worker", args[0])
		return 2
	}
	return f(args[1:])
}
