package checks

import (
	"bytes"
	"database/sql"
	"encoding/json"
	"errors"
	"fmt"
	"os"
	"path/filepath"
	"runtime"
	"strings"
	"sync"
	"sync/atomic"
	"time"

	_ "github.com/mattn/go-sqlite3"
	"github.com/quickfixgo/quickfix"
	"github.com/quickfixgo/quickfix/config"
	filestore "github.com/quickfixgo/quickfix/store/file"
	sqlstore "github.com/quickfixgo/quickfix/store/sql"

	"verif/internal/core"
)

// ---------- C16: every message store behaves like the same abstract store, durably ----------

type c16Op struct {
	K    string `json:"k"` // setS setT incrS incrT save saveincr iterabort refresh reset reopen
	Arg  int    `json:"arg,omitempty"`
	Sess int    `json:"sess,omitempty"`
}

func (o c16Op) String() string {
	s := o.K
	if o.K == "setS" || o.K == "setT" || o.K == "iterabort" {
		s += fmt.Sprintf("(%d)", o.Arg)
	}
	if o.Sess > 0 {
		s = fmt.Sprintf("s%d.%s", o.Sess, s)
	}
	return s
}

type c16Case struct {
	Store string  `json:"store"` // memory file file-nosync sql
	Prog  []c16Op `json:"prog"`
	IDs   int     `json:"ids"` // which session-id set (for two-session programs)
}

var c16Msgs = [][]byte{
	[]byte("8=FIX.4.2\x019=5\x0135=0\x0110=000\x01"),
	[]byte(""),
	[]byte("x,y\n1,2,3\n"),
	{0x01, 0x00, 0xff, 0xfe, '\n', ',', 0x80},
	bytes.Repeat([]byte("L5kB,"), 1000),
	[]byte("A"),
}

type c16Model struct {
	S, T, hi int
	M        map[int][]byte
	saves    int
	// creation time bounds: the store must report an instant in [lo, hi] and keep reporting the same one
	cLo, cHi time.Time
	cSeen    time.Time
	cKnown   bool
}

func newC16Model() *c16Model { return &c16Model{S: 1, T: 1, M: map[int][]byte{}} }

var c16IDSets = [][]quickfix.SessionID{
	{{BeginString: "FIX.4.2", SenderCompID: "SND", TargetCompID: "TGT"}, {BeginString: "FIX.4.2", SenderCompID: "TGT", TargetCompID: "SND"}},
	{{BeginString: "FIX.4.4", SenderCompID: "A", TargetCompID: "B", SenderSubID: "S1", TargetLocationID: "L"}, {BeginString: "FIX.4.4", SenderCompID: "A", TargetCompID: "B", SenderSubID: "S1", TargetLocationID: "L", Qualifier: "Q2"}},
	{{BeginString: "FIX.4.2", SenderCompID: "A", TargetCompID: "B", SenderSubID: "S"}, {BeginString: "FIX.4.2", SenderCompID: "A", TargetCompID: "B", SenderLocationID: "S"}},
	// two identities that differ in exactly one field, for each field
	{{BeginString: "FIX.4.4", SenderCompID: "A", TargetCompID: "B", SenderSubID: "S1", SenderLocationID: "L1", TargetSubID: "T1", TargetLocationID: "NY"}, {BeginString: "FIX.4.4", SenderCompID: "A", TargetCompID: "B", SenderSubID: "S1", SenderLocationID: "L1", TargetSubID: "T1", TargetLocationID: "LDN"}},
	{{BeginString: "FIX.4.4", SenderCompID: "A", TargetCompID: "B", SenderSubID: "S1", SenderLocationID: "L1", TargetSubID: "T1", TargetLocationID: "NY"}, {BeginString: "FIX.4.4", SenderCompID: "A", TargetCompID: "B", SenderSubID: "S1", SenderLocationID: "L1", TargetSubID: "T2", TargetLocationID: "NY"}},
	{{BeginString: "FIX.4.4", SenderCompID: "A", TargetCompID: "B", SenderSubID: "S1", SenderLocationID: "L1", TargetSubID: "T1", TargetLocationID: "NY"}, {BeginString: "FIX.4.4", SenderCompID: "A", TargetCompID: "B", SenderSubID: "S1", SenderLocationID: "L2", TargetSubID: "T1", TargetLocationID: "NY"}},
	{{BeginString: "FIX.4.4", SenderCompID: "A", TargetCompID: "B", SenderSubID: "S1", SenderLocationID: "L1", TargetSubID: "T1", TargetLocationID: "NY"}, {BeginString: "FIX.4.4", SenderCompID: "A", TargetCompID: "B", SenderSubID: "S2", SenderLocationID: "L1", TargetSubID: "T1", TargetLocationID: "NY"}},
	{{BeginString: "FIX.4.4", SenderCompID: "A", TargetCompID: "B", SenderSubID: "S1"}, {BeginString: "FIX.4.2", SenderCompID: "A", TargetCompID: "B", SenderSubID: "S1"}},
	{{BeginString: "FIX.4.4", SenderCompID: "A", TargetCompID: "B"}, {BeginString: "FIX.4.4", SenderCompID: "A", TargetCompID: "C"}},
}

type c16Backend struct {
	kind    string
	dir     string
	factory quickfix.MessageStoreFactory
}

var (
	sqliteTemplate     []byte
	sqliteTemplateOnce sync.Once
	sqliteTemplateErr  error
)

func sqliteTemplateDB() ([]byte, error) {
	sqliteTemplateOnce.Do(func() {
		dir, cleanup := core.Scratch("sqltmpl")
		defer cleanup()
		p := filepath.Join(dir, "t.db")
		db, err := sql.Open("sqlite3", p)
		if err != nil {
			sqliteTemplateErr = err
			return
		}
		for _, f := range []string{"messages_table.sql", "sessions_table.sql"} {
			ddl, err := os.ReadFile("/repo/_sql/sqlite3/" + f)
			if err != nil {
				sqliteTemplateErr = err
				return
			}
			if _, err := db.Exec(string(ddl)); err != nil {
				sqliteTemplateErr = err
				return
			}
		}
		db.Close()
		sqliteTemplate, sqliteTemplateErr = os.ReadFile(p)
	})
	return sqliteTemplate, sqliteTemplateErr
}

func newC16Backend(kind, scratch string, ids []quickfix.SessionID) (*c16Backend, error) {
	b := &c16Backend{kind: kind}
	if kind == "memory" {
		b.factory = quickfix.NewMemoryStoreFactory()
		return b, nil
	}
	d, err := os.MkdirTemp(scratch, "st")
	if err != nil {
		return nil, err
	}
	b.dir = d
	st := quickfix.NewSettings()
	switch kind {
	case "file", "file-nosync":
		st.GlobalSettings().Set(config.FileStorePath, d)
		if kind == "file-nosync" {
			st.GlobalSettings().Set(config.FileStoreSync, "N")
		}
	case "sql":
		tmpl, err := sqliteTemplateDB()
		if err != nil {
			return nil, err
		}
		p := filepath.Join(d, "store.db")
		if err := os.WriteFile(p, tmpl, 0o644); err != nil {
			return nil, err
		}
		st.GlobalSettings().Set(config.SQLStoreDriver, "sqlite3")
		// no waiting on a locked database: the operations of a program follow each other on one goroutine, so a lock
		// met by a write can only be one that an earlier operation of the same program left behind (with the driver's
		// default of 5 s the garbage collector usually finalises a leaked statement first and hides it)
		st.GlobalSettings().Set(config.SQLStoreDataSourceName, "file:"+p+"?_busy_timeout=20")
	}
	for _, id := range ids {
		ss := quickfix.NewSessionSettings()
		ss.Set(config.BeginString, id.BeginString)
		ss.Set(config.SenderCompID, id.SenderCompID)
		ss.Set(config.TargetCompID, id.TargetCompID)
		set := func(k, v string) {
			if v != "" {
				ss.Set(k, v)
			}
		}
		set(config.SenderSubID, id.SenderSubID)
		set(config.SenderLocationID, id.SenderLocationID)
		set(config.TargetSubID, id.TargetSubID)
		set(config.TargetLocationID, id.TargetLocationID)
		set(config.SessionQualifier, id.Qualifier)
		if _, err := st.AddSession(ss); err != nil {
			return nil, err
		}
	}
	if kind == "sql" {
		b.factory = sqlstore.NewStoreFactory(st)
	} else {
		b.factory = filestore.NewStoreFactory(st)
	}
	return b, nil
}

func (b *c16Backend) cleanup() {
	if b.dir != "" {
		os.RemoveAll(b.dir)
	}
}

// observe compares every answer of the store with the model.
func c16Observe(st quickfix.MessageStore, m *c16Model, full bool, salt int) (rule, what string) {
	if s := st.NextSenderMsgSeqNum(); s != m.S {
		return "C16/counter-sender", fmt.Sprintf("NextSenderMsgSeqNum %d, model %d", s, m.S)
	}
	if t := st.NextTargetMsgSeqNum(); t != m.T {
		return "C16/counter-target", fmt.Sprintf("NextTargetMsgSeqNum %d, model %d", t, m.T)
	}
	ct := st.CreationTime()
	if ct.Before(m.cLo) || ct.After(m.cHi) {
		return "C16/creation-time-out-of-bounds", fmt.Sprintf("creation time %v, expected within [%v, %v]", ct, m.cLo, m.cHi)
	}
	if m.cKnown && !ct.Equal(m.cSeen) {
		return "C16/creation-time-changed", fmt.Sprintf("creation time %v, earlier reported %v", ct, m.cSeen)
	}
	m.cKnown, m.cSeen = true, ct
	check := func(b, e int) (string, string) {
		got, err := st.GetMessages(b, e)
		if err != nil {
			return "C16/get-error", fmt.Sprintf("GetMessages(%d,%d): %v", b, e, err)
		}
		var want [][]byte
		for s := b; s <= e; s++ {
			if v, ok := m.M[s]; ok {
				want = append(want, v)
			}
		}
		if len(got) != len(want) {
			return "C16/get-count", fmt.Sprintf("GetMessages(%d,%d) returned %d messages, model has %d", b, e, len(got), len(want))
		}
		for i := range want {
			if !bytes.Equal(got[i], want[i]) {
				return "C16/get-bytes", fmt.Sprintf("GetMessages(%d,%d)[%d] = %q, saved %q", b, e, i, trunc(got[i]), trunc(want[i]))
			}
		}
		return "", ""
	}
	if r, w := check(1, 8); r != "" {
		return r, w
	}
	// (numbers may be far apart when the counter was moved forward: the whole range up to the highest saved number,
	// and the stretch around it)
	if m.hi > 8 {
		if r, w := check(1, m.hi+1); r != "" {
			return r, w
		}
		if r, w := check(m.hi-1, m.hi+1); r != "" {
			return r, w
		}
	}
	if full {
		for b := 0; b <= 5; b++ {
			for e := 0; e <= 5; e++ {
				if r, w := check(b, e); r != "" {
					return r, w
				}
			}
		}
	} else {
		b := 1 + salt%4
		e := 1 + (salt/4)%4
		if r, w := check(b, e); r != "" {
			return r, w
		}
	}
	return "", ""
}

func trunc(b []byte) string {
	if len(b) > 40 {
		return string(b[:40]) + "..."
	}
	return string(b)
}

var errAbort = errors.New("abort iteration")

func c16Run(cs c16Case, scratch string) (rule, what string, err error) {
	ids := c16IDSets[cs.IDs%len(c16IDSets)]
	be, err := newC16Backend(cs.Store, scratch, ids)
	if err != nil {
		return "", "", err
	}
	defer be.cleanup()
	persistent := cs.Store != "memory"
	stores := make([]quickfix.MessageStore, 2)
	models := []*c16Model{newC16Model(), newC16Model()}
	open := func(i int) error {
		lo := time.Now().Add(-time.Millisecond)
		st, err := be.factory.Create(ids[i])
		if err != nil {
			return err
		}
		stores[i] = st
		if !models[i].cKnown {
			models[i].cLo, models[i].cHi = lo, time.Now().Add(time.Millisecond)
		}
		return nil
	}
	defer func() {
		for _, s := range stores {
			if s != nil {
				s.Close()
			}
		}
	}()
	nSess := 1
	for _, o := range cs.Prog {
		if o.Sess+1 > nSess {
			nSess = o.Sess + 1
		}
	}
	for i := 0; i < nSess; i++ {
		if err := open(i); err != nil {
			return "C16/open-error", err.Error(), nil
		}
		if r, w := c16Observe(stores[i], models[i], false, 0); r != "" {
			return r, "after open: " + w, nil
		}
	}
	for step, o := range cs.Prog {
		st, m := stores[o.Sess], models[o.Sess]
		var opErr error
		switch o.K {
		case "setS":
			opErr = st.SetNextSenderMsgSeqNum(o.Arg)
			m.S = o.Arg
		case "setT":
			opErr = st.SetNextTargetMsgSeqNum(o.Arg)
			m.T = o.Arg
		case "incrS":
			opErr = st.IncrNextSenderMsgSeqNum()
			m.S++
		case "incrT":
			opErr = st.IncrNextTargetMsgSeqNum()
			m.T++
		case "save":
			b := c16Msgs[(m.saves+o.Sess)%len(c16Msgs)]
			m.saves++
			seq := m.hi + 1
			opErr = st.SaveMessage(seq, b)
			m.M[seq], m.hi = b, seq
		case "saveincr":
			if m.S <= m.hi {
				continue // outside the domain (save numbers ascend within an epoch)
			}
			b := c16Msgs[(m.saves+o.Sess)%len(c16Msgs)]
			m.saves++
			opErr = st.SaveMessageAndIncrNextSenderMsgSeqNum(m.S, b)
			m.M[m.S], m.hi = b, m.S
			m.S++
		case "iterabort":
			var seen [][]byte
			n := 0
			ierr := st.IterateMessages(1, 8, func(b []byte) error {
				n++
				seen = append(seen, b)
				if n == o.Arg {
					return errAbort
				}
				return nil
			})
			var want [][]byte
			for s := 1; s <= 8; s++ {
				if v, ok := m.M[s]; ok {
					want = append(want, v)
				}
			}
			wantN := len(want)
			if o.Arg <= wantN {
				wantN = o.Arg
				if !errors.Is(ierr, errAbort) {
					return "C16/iterate-abort-not-propagated", fmt.Sprintf("step %d: callback error at call %d not returned (got %v)", step, o.Arg, ierr), nil
				}
			} else if ierr != nil {
				return "C16/iterate-error", fmt.Sprintf("step %d: %v", step, ierr), nil
			}
			if len(seen) != wantN {
				return "C16/iterate-callback-count", fmt.Sprintf("step %d: callback ran %d times, expected %d", step, len(seen), wantN), nil
			}
			for i := range seen {
				if !bytes.Equal(seen[i], want[i]) {
					return "C16/iterate-order", fmt.Sprintf("step %d: callback %d got %q", step, i, trunc(seen[i])), nil
				}
			}
		case "refresh":
			opErr = st.Refresh()
		case "reset":
			lo := time.Now().Add(-time.Millisecond)
			opErr = st.Reset()
			prev := m.cSeen
			*m = *newC16Model()
			m.cLo, m.cHi = lo, time.Now().Add(time.Millisecond)
			if opErr == nil && !st.CreationTime().After(prev) && !prev.IsZero() && st.CreationTime().Equal(prev) {
				return "C16/reset-kept-creation-time", fmt.Sprintf("step %d: creation time still %v after Reset", step, prev), nil
			}
		case "reopen":
			if !persistent {
				continue
			}
			if err := st.Close(); err != nil {
				return "C16/close-error", err.Error(), nil
			}
			stores[o.Sess] = nil
			if err := open(o.Sess); err != nil {
				return "C16/reopen-error", fmt.Sprintf("step %d: %v", step, err), nil
			}
			st = stores[o.Sess]
		}
		if opErr != nil {
			return "C16/op-error op=" + o.K, fmt.Sprintf("step %d %s: %v", step, o, opErr), nil
		}
		for i := 0; i < nSess; i++ {
			if r, w := c16Observe(stores[i], models[i], false, step*7+i); r != "" {
				return r + " after=" + o.K, fmt.Sprintf("step %d (%s), session %d: %s", step, o, i, w), nil
			}
		}
	}
	// final: full observation, after Refresh, and by a fresh store on the same backing medium
	for i := 0; i < nSess; i++ {
		if r, w := c16Observe(stores[i], models[i], true, 0); r != "" {
			return r + " at=end", fmt.Sprintf("session %d: %s", i, w), nil
		}
		if !persistent {
			continue
		}
		if err := stores[i].Refresh(); err != nil {
			return "C16/refresh-error", err.Error(), nil
		}
		if r, w := c16Observe(stores[i], models[i], true, 0); r != "" {
			return r + " at=after-refresh", fmt.Sprintf("session %d: %s", i, w), nil
		}
		fresh, err := be.factory.Create(ids[i])
		if err != nil {
			return "C16/second-open-error", err.Error(), nil
		}
		r, w := c16Observe(fresh, models[i], true, 0)
		fresh.Close()
		if r != "" {
			return r + " at=fresh-store", fmt.Sprintf("session %d: %s", i, w), nil
		}
	}
	return "", "", nil
}

func init() {
	register("C16", core.LevelExploration, runC16)
	core.RegisterReplay("C16/prog", func(data json.RawMessage) (bool, string, error) {
		var cs c16Case
		if err := json.Unmarshal(data, &cs); err != nil {
			return false, "", err
		}
		dir, cleanup := core.Scratch("c16r")
		defer cleanup()
		r, w, err := c16Run(cs, dir)
		return r != "", r + ": " + w, err
	})
}

func c16Alphabet() []c16Op {
	return []c16Op{{K: "saveincr"}, {K: "save"}, {K: "incrS"}, {K: "incrT"}, {K: "setS", Arg: 1}, {K: "setS", Arg: 3}, {K: "setS", Arg: 2500}, {K: "setT", Arg: 1}, {K: "setT", Arg: 12},
		{K: "iterabort", Arg: 1}, {K: "iterabort", Arg: 2}, {K: "refresh"}, {K: "reset"}, {K: "reopen"}}
}

func runC16(c *core.Ctx) {
	quick := c.Quick()
	if quick {
		c.SetDeadline(5 * time.Minute)
	} else {
		c.SetDeadline(45 * time.Minute)
	}
	scratch, cleanup := core.Scratch("c16")
	defer cleanup()
	if _, err := sqliteTemplateDB(); err != nil {
		c.EngineError("sqlite: " + err.Error())
		return
	}
	depth := map[string]int{"memory": 4, "file": 4, "file-nosync": 3, "sql": 3}
	depth2 := 2
	if !quick {
		depth = map[string]int{"memory": 5, "file": 5, "file-nosync": 4, "sql": 4}
		depth2 = 3
	}
	c.SetRule("all operation programs up to depth d over {save-and-increment, save, increments, set counters (also far ahead: 2500), iterate aborting at the j-th callback, Refresh, Reset, close+reopen} (message bytes rotate through 6 payloads incl. empty, commas/newlines, SOH/NUL/non-UTF-8, 5 kB) on the memory, file (sync on/off) and SQL (sqlite) stores; after every operation counters, creation time and ranges are compared with an abstract store; at the end all ranges, again after Refresh and through a fresh store on the same backing medium; plus two sessions with near-identical IDs (differing in exactly one identity field, for each field; differing by the qualifier; the same string as SubID of one and LocationID of the other) interleaved on one directory/database")
	c.Assume("save numbers ascend within an epoch (a save-and-increment below the highest saved number is skipped)", "creation time is bounded by the wall-clock instants around open/Reset and must then stay Equal",
		"Mongo store: no server in the sandbox, not executed", "SQL store exercised on sqlite through the repository's own schema files")
	alpha := c16Alphabet()
	type plan struct {
		store string
		prog  []c16Op
		ids   int
	}
	jobs := make(chan plan, 4096)
	var evals int64
	var wg sync.WaitGroup
	for wk := 0; wk < runtime.NumCPU(); wk++ {
		wg.Add(1)
		go func() {
			defer wg.Done()
			for p := range jobs {
				cs := c16Case{Store: p.store, Prog: p.prog, IDs: p.ids}
				r, w, err := c16Run(cs, scratch)
				atomic.AddInt64(&evals, 1)
				if err != nil {
					c.EngineError(err.Error())
					continue
				}
				if r != "" {
					names := []string{}
					for _, o := range p.prog {
						names = append(names, o.String())
					}
					c.Violation(r+" store="+p.store, w+" | program: "+strings.Join(names, "; "), "C16/prog", cs)
				}
			}
		}()
	}
	for _, store := range []string{"memory", "file", "file-nosync", "sql"} {
		d := depth[store]
		var rec func(prog []c16Op)
		rec = func(prog []c16Op) {
			if len(prog) == d {
				jobs <- plan{store, append([]c16Op{}, prog...), 0}
				return
			}
			for _, o := range alpha {
				rec(append(prog, o))
			}
		}
		rec(nil)
		c.Sample(map[string]any{"store": store, "depth": d, "programs": pow(len(alpha), d)})
		if store == "memory" {
			continue
		}
		// two sessions interleaved
		two := []c16Op{}
		for _, o := range []c16Op{{K: "saveincr"}, {K: "save"}, {K: "incrT"}, {K: "setS", Arg: 3}, {K: "reset"}, {K: "reopen"}, {K: "refresh"}} {
			for s := 0; s < 2; s++ {
				o.Sess = s
				two = append(two, o)
			}
		}
		for ids := range c16IDSets {
			// two distinct session IDs must not end up on the same backing files/rows at all
			probe := c16Case{Store: store, IDs: ids, Prog: []c16Op{{K: "saveincr", Sess: 1}, {K: "incrT", Sess: 0}}}
			if r, w, err := c16Run(probe, scratch); err == nil && r != "" {
				a, b := c16IDSets[ids][0], c16IDSets[ids][1]
				c.Violation(fmt.Sprintf("C16/distinct-session-ids-share-backing store=%s ids=%d", store, ids),
					fmt.Sprintf("sessions %v and %v interfere on one %s backing medium: %s", a, b, store, w), "C16/prog", probe)
				continue
			}
			var rec2 func(prog []c16Op)
			rec2 = func(prog []c16Op) {
				if len(prog) == depth2+1 {
					jobs <- plan{store, append([]c16Op{}, prog...), ids}
					return
				}
				for _, o := range two {
					rec2(append(prog, o))
				}
			}
			rec2([]c16Op{{K: "saveincr", Sess: 1}})
		}
		if c.Expired() {
			break
		}
	}
	close(jobs)
	wg.Wait()
	c.AddEval(evals)
	c.DistinctN(evals)
}

func pow(a, b int) int {
	r := 1
	for i := 0; i < b; i++ {
		r *= a
	}
	return r
}
