package checks

import (
	"bytes"
	"encoding/json"
	"fmt"
	"os"
	"time"

	"verif/internal/core"
	"verif/internal/fixscan"
	"verif/internal/sessmc"
)

// ---------- C07, RefreshOnLogon: the persistent store is the truth at every logon ----------
//
// With RefreshOnLogon=Y a second process (the other node of a hot-standby pair) may have used the persistent store
// while this engine was not connected. The statement's "both sequence counters and the stored messages are unchanged
// by disconnecting and reconnecting" is then about that store: unless a reset is configured or negotiated, nothing
// this engine transmits on the next connection may be numbered below the persisted outbound counter, and what the
// other process stored stays stored. Every (role, ResetOnLogon, store, earlier connection, Logon variant) is run.

type c07SbCase struct {
	Initiator    bool
	ResetOnLogon bool
	SQL          bool
	Pre          bool // one complete earlier connection of this engine
	Logon        int  // index into c07SbLogons
}

type c07SbLogon struct {
	name string
	bad  bool
	mk   func(tx int) *sessmc.In
}

var c07SbLogons = []c07SbLogon{
	{"A@T", false, func(tx int) *sessmc.In { return &sessmc.In{Type: "A", Abs: tx} }},
	{"A@T,141=N", false, func(tx int) *sessmc.In {
		return &sessmc.In{Type: "A", Abs: tx, Body: []fixscan.Field{{141, "N"}}}
	}},
	{"A@#1,141=Y", false, func(tx int) *sessmc.In {
		return &sessmc.In{Type: "A", Abs: 1, Body: []fixscan.Field{{141, "Y"}}}
	}},
	{"A@T,app-refuses", true, func(tx int) *sessmc.In {
		return &sessmc.In{Type: "A", Abs: tx, Body: []fixscan.Field{{58, "REJECT"}}}
	}},
	{"A@#1,141=Y,app-refuses", true, func(tx int) *sessmc.In {
		return &sessmc.In{Type: "A", Abs: 1, Body: []fixscan.Field{{141, "Y"}, {58, "REJECT"}}}
	}},
	{"A@#1,141=Y,wrongCompID", true, func(tx int) *sessmc.In {
		return &sessmc.In{Type: "A", Abs: 1, Body: []fixscan.Field{{141, "Y"}}, Set: []fixscan.Field{{49, "EVIL"}}}
	}},
	{"A@#1,141=Y,stale", true, func(tx int) *sessmc.In {
		return &sessmc.In{Type: "A", Abs: 1, Body: []fixscan.Field{{141, "Y"}}, TimeSkew: -time.Hour}
	}},
	{"A@T,wrongCompID", true, func(tx int) *sessmc.In {
		return &sessmc.In{Type: "A", Abs: tx, Set: []fixscan.Field{{49, "EVIL"}}}
	}},
	{"A@T+2", false, func(tx int) *sessmc.In { return &sessmc.In{Type: "A", Abs: tx + 2} }},
	{"A@T-1", false, func(tx int) *sessmc.In { return &sessmc.In{Type: "A", Abs: tx - 1} }},
	{"A@T,stale", true, func(tx int) *sessmc.In { return &sessmc.In{Type: "A", Abs: tx, TimeSkew: -time.Hour} }},
}

func (cs c07SbCase) String() string {
	role, st := "acc", "file"
	if cs.Initiator {
		role = "ini"
	}
	if cs.SQL {
		st = "sql"
	}
	return fmt.Sprintf("%s/%s/ResetOnLogon=%v/pre=%v/%s", role, st, cs.ResetOnLogon, cs.Pre, c07SbLogons[cs.Logon].name)
}

func c07SbEval(cs c07SbCase) (rule, what string, err error) {
	dir, cleanup := core.Scratch("c07sb")
	defer cleanup()
	cfg := sessmc.Config{Initiator: cs.Initiator, BeginString: "FIX.4.2", FileDir: dir, RefreshOnLogon: true, ResetOnLogon: cs.ResetOnLogon,
		InitS: 3, InitT: 2, InitMsgs: []string{"A", "D"}}
	if cs.SQL {
		tmpl, e := sqliteTemplateDB()
		if e != nil {
			return "", "", e
		}
		cfg.SQLTemplate = dir + "/template.db"
		if e := os.WriteFile(cfg.SQLTemplate, tmpl, 0o644); e != nil {
			return "", "", e
		}
	}
	w, e := sessmc.NewWorld(cfg)
	if e != nil {
		return "", "", e
	}
	defer w.Close()
	if cs.Pre {
		w.Apply(sessmc.EvConnect())
		w.Apply(sessmc.EvLogon(0, 0, ""))
		w.Apply(sessmc.EvDisconnect())
	}
	s0, t0 := w.S(), w.T()
	n, ext, e := w.ExtAdvance()
	if e != nil {
		return "", "", e
	}
	if n != s0 {
		return "", "", fmt.Errorf("the second store instance numbers from %d, the engine's from %d", n, s0)
	}
	sx, tx := s0+1, t0+1
	lg := c07SbLogons[cs.Logon]
	ctx := fmt.Sprintf("%s: counters %d/%d, the other process stored number %d and left %d/%d", cs, s0, t0, n, sx, tx)
	var outs []sessmc.Obs
	collect := func(obs []sessmc.Obs) error {
		for _, o := range obs {
			switch o.K {
			case "out":
				outs = append(outs, o)
			case "panic":
				return fmt.Errorf("panic: %s", o.Txt)
			}
		}
		return nil
	}
	if e := collect(w.Apply(sessmc.EvConnect())); e != nil {
		return "C07/SB-panic", e.Error() + " | " + ctx, nil
	}
	resetAgreed := cs.ResetOnLogon && cs.Initiator
	if cs.Initiator && len(outs) == 0 {
		return "C07/SB-no-logon-on-connect", ctx, nil
	}
	ev := &sessmc.Event{K: "in", Name: "in(" + lg.name + ")", In: lg.mk(tx)}
	if w.Enabled(ev) {
		if e := collect(w.Apply(ev)); e != nil {
			return "C07/SB-panic", e.Error() + " | " + ctx, nil
		}
		if !cs.Initiator && !lg.bad && (cs.ResetOnLogon || cs.Logon == 2) {
			resetAgreed = true
		}
		if cs.Initiator && !lg.bad && cs.Logon == 2 {
			resetAgreed = true // the peer asks for the reset in its reply
		}
	}
	sig := fmt.Sprintf(" role=%v reset=%v logon=%s", map[bool]string{true: "ini", false: "acc"}[cs.Initiator], cs.ResetOnLogon, lg.name)
	if resetAgreed {
		// (an initiator whose peer asks for the reset in its reply had sent its own Logon before)
		if len(outs) > 0 && (!cs.Initiator || cs.ResetOnLogon) {
			if m, err := fixscan.Scan(outs[0].Raw); err == nil && m.Type() == "A" && m.Seq() != 1 {
				return "C07/SB-reset-logon-number" + sig, fmt.Sprintf("Logon numbered %d although a reset applies | %s", m.Seq(), ctx), nil
			}
		}
		return "", "", nil
	}
	for i, o := range outs {
		m, err := fixscan.Scan(o.Raw)
		if err != nil {
			continue
		}
		if m.Seq() < sx || (i == 0 && m.Seq() != sx) {
			return "C07/SB-numbered-from-stale-counter" + sig, fmt.Sprintf("transmitted %s numbered %d; the persistent store says the next unused number is %d | %s", m.Type(), m.Seq(), sx, ctx), nil
		}
	}
	ps, pt, msgs, e := w.Persisted(n)
	if e != nil {
		return "C07/SB-persisted-unreadable" + sig, e.Error() + " | " + ctx, nil
	}
	if len(msgs) != 1 || !bytes.Equal(msgs[0], ext) {
		got := "nothing"
		if len(msgs) > 0 {
			got = fmt.Sprintf("%d message(s), first %q", len(msgs), msgs[0])
		}
		return "C07/SB-stored-message-replaced" + sig, fmt.Sprintf("number %d held what the other process sent; now the store returns %s | %s", n, got, ctx), nil
	}
	if ps < sx || pt < tx {
		return "C07/SB-persisted-counters-went-back" + sig, fmt.Sprintf("persisted counters are %d/%d, they were %d/%d before this connection | %s", ps, pt, sx, tx, ctx), nil
	}
	return "", "", nil
}

func init() {
	core.RegisterReplay("C07/standby", func(data json.RawMessage) (bool, string, error) {
		var cs c07SbCase
		if err := json.Unmarshal(data, &cs); err != nil {
			return false, "", err
		}
		r, w, err := c07SbEval(cs)
		return r != "", r + ": " + w, err
	})
}

// c07Standby enumerates every case.
func c07Standby(c *core.Ctx) {
	n := 0
	for _, sql := range []bool{false, true} {
		for _, ini := range []bool{false, true} {
			for _, rol := range []bool{false, true} {
				for _, pre := range []bool{false, true} {
					for k := range c07SbLogons {
						cs := c07SbCase{Initiator: ini, ResetOnLogon: rol, SQL: sql, Pre: pre, Logon: k}
						r, w, err := c07SbEval(cs)
						if err != nil {
							c.EngineError("C07 standby " + cs.String() + ": " + err.Error())
							return
						}
						n++
						c.AddEval(1)
						c.Distinct("sb:" + cs.String())
						if r != "" {
							c.Violation(r, w, "C07/standby", cs)
						}
					}
				}
			}
		}
	}
	c.Set("standby_cases", n)
}
