package checks

import (
	"encoding/json"
	"fmt"
	"hash/fnv"
	"runtime"
	"strings"
	"sync"
	"sync/atomic"
	"time"

	"verif/internal/core"
	"verif/internal/sessmc"
)

// ---------- C05: two engines deliver every application message exactly once across disconnects ----------

const (
	evStep = iota
	evSwap
	evSendI
	evSendA
	evCut
	evRestartI
	evRestartA
	evPeerI
	evPeerA
	evStopI
	evStopA
)

var c05Names = []string{"step", "step(other wire first)", "send on initiator", "send on acceptor", "cut connection", "restart initiator", "restart acceptor", "silent-peer timer fires on the initiator", "silent-peer timer fires on the acceptor", "initiator stopped (logs out) and recreated on its store", "acceptor stopped (logs out) and recreated on its store"}

type c05Budget struct {
	Sends, Faults, Swaps int
	Timers               int    // silent-peer timer firings (either side)
	Begin                string `json:",omitempty"` // BeginString of both engines (default FIX.4.2)
	NextExpected         bool   `json:",omitempty"` // both engines exchange NextExpectedMsgSeqNum(789) on the Logon
	Stops                bool   `json:",omitempty"` // graceful stop (Logout exchange) + recreation is among the faults
}

type c05Case struct {
	File   bool      `json:"file_store"`
	Path   []uint8   `json:"path"`
	Budget c05Budget `json:"budget"`
	Probe  bool      `json:"probe"`
}

// c05Build replays a path on a fresh pair. ok=false if the last event was not enabled / a no-op.
func c05Build(file bool, scratch string, path []uint8, b c05Budget) (p *sessmc.Pair, ok bool, err error) {
	dir := ""
	if file {
		dir = scratch
	}
	bs := b.Begin
	if bs == "" {
		bs = "FIX.4.2"
	}
	var extra map[string]string
	if b.NextExpected {
		extra = map[string]string{"EnableNextExpectedMsgSeqNum": "Y"}
	}
	p, err = sessmc.NewPairExtra(dir, bs, extra)
	if err != nil {
		return nil, false, err
	}
	sI, sA, faults, swaps, timers := 0, 0, 0, 0, 0
	ok = true
	for i, e := range path {
		last := i == len(path)-1
		switch e {
		case evStep:
			if !p.Step(false) && last {
				ok = false
			}
		case evSwap:
			if !p.CanSwap() || swaps >= b.Swaps {
				ok = false
			} else {
				swaps++
				p.Step(true)
			}
		case evSendI:
			if sI >= b.Sends {
				ok = false
			} else {
				sI++
				p.Send(true)
			}
		case evSendA:
			if sA >= b.Sends {
				ok = false
			} else {
				sA++
				p.Send(false)
			}
		case evCut:
			if faults >= b.Faults || !(p.I.VS.Snapshot().Connected || p.A.VS.Snapshot().Connected) {
				ok = false
			} else {
				faults++
				p.Cut()
			}
		case evRestartI, evRestartA:
			if faults >= b.Faults || !file {
				ok = false
			} else {
				faults++
				p.Restart(e == evRestartI)
			}
		case evStopI, evStopA:
			// a graceful stop while connected (with the link down it is the plain restart)
			if !b.Stops || faults >= b.Faults || !file || !(p.I.VS.Snapshot().Connected && p.A.VS.Snapshot().Connected) {
				ok = false
			} else {
				faults++
				p.StopRestart(e == evStopI)
			}
		case evPeerI, evPeerA:
			if timers >= b.Timers || !p.PeerTimer(e == evPeerI) {
				ok = false
			} else {
				timers++
			}
		}
		if !ok {
			break
		}
	}
	return p, ok, nil
}

func c05Safety(p *sessmc.Pair) (string, string) {
	for _, t := range p.Trace {
		if strings.HasPrefix(t, "PANIC") {
			return "C05/panic", t
		}
	}
	if !sessmc.Subsequence(p.A.Delivered, p.SentI) {
		return "C05/S-acceptor-delivery-not-a-subsequence", fmt.Sprintf("acceptor's application received %v, initiator accepted %v", p.A.Delivered, p.SentI)
	}
	if !sessmc.Subsequence(p.I.Delivered, p.SentA) {
		return "C05/S-initiator-delivery-not-a-subsequence", fmt.Sprintf("initiator's application received %v, acceptor accepted %v", p.I.Delivered, p.SentA)
	}
	return "", ""
}

// c05Converge: keep the link up for a few heartbeat intervals; everything accepted must then have been delivered.
func c05Converge(p *sessmc.Pair) (string, string) {
	for round := 0; round < 4; round++ {
		if !p.Quiesce(400) {
			return "C05/L-no-quiescence", "default schedule did not quiesce within 400 steps (replay loop)"
		}
		if r, w := c05Safety(p); r != "" {
			return r, w
		}
		eq := func(a, b []string) bool { return strings.Join(a, ",") == strings.Join(b, ",") }
		if eq(p.A.Delivered, p.SentI) && eq(p.I.Delivered, p.SentA) && p.I.VS.Snapshot().LoggedOn && p.A.VS.Snapshot().LoggedOn {
			return "", ""
		}
		p.Timers()
	}
	return "C05/L-not-delivered-after-heartbeats", fmt.Sprintf("after reconnecting and 3 heartbeat intervals: acceptor received %v of %v, initiator received %v of %v (states %s / %s)",
		p.A.Delivered, p.SentI, p.I.Delivered, p.SentA, p.I.VS.Snapshot().State, p.A.VS.Snapshot().State)
}

func c05Describe(path []uint8) string {
	var parts []string
	run := 0
	flush := func() {
		if run > 0 {
			parts = append(parts, fmt.Sprintf("%d x step", run))
			run = 0
		}
	}
	for _, e := range path {
		if e == evStep {
			run++
			continue
		}
		flush()
		parts = append(parts, c05Names[e])
	}
	flush()
	return strings.Join(parts, "; ")
}

func init() {
	register("C05", core.LevelMC, runC05)
	core.RegisterReplay("C05/path", func(data json.RawMessage) (bool, string, error) {
		var cs c05Case
		if err := json.Unmarshal(data, &cs); err != nil {
			return false, "", err
		}
		scratch, cleanup := core.Scratch("c05r")
		defer cleanup()
		p, ok, err := c05Build(cs.File, scratch, cs.Path, cs.Budget)
		if err != nil {
			return false, "", err
		}
		defer p.Close()
		if !ok {
			return false, "path no longer enabled", nil
		}
		r, w := c05Safety(p)
		if r == "" && cs.Probe {
			r, w = c05Converge(p)
		}
		return r != "", r + ": " + w + " | trace: " + strings.Join(p.Trace, "; "), nil
	})
}

func runC05(c *core.Ctx) {
	quick := c.Quick()
	budgets := []c05Budget{{Sends: 2, Faults: 1, Swaps: 0}, {Sends: 1, Faults: 1, Swaps: 1}, {Sends: 1, Faults: 2, Swaps: 0}, {Sends: 1, Faults: 1, Swaps: 0, Timers: 1}, {Sends: 1, Faults: 1, Swaps: 0, Begin: "FIX.4.1"}}
	// both engines configured with EnableNextExpectedMsgSeqNum=Y (the Logon carries tag 789 and the recovery is implied)
	budgets = append(budgets, c05Budget{Sends: 1, Faults: 1, Swaps: 0, Begin: "FIX.4.4", NextExpected: true})
	// graceful stops (the engine logs out, is discarded and recreated on its store) among the faults
	budgets = append(budgets, c05Budget{Sends: 2, Faults: 1, Swaps: 0, Stops: true})
	maxDepth := 60
	if quick {
		c.SetDeadline(5 * time.Minute)
	} else {
		budgets = []c05Budget{{Sends: 2, Faults: 2, Swaps: 1}, {Sends: 3, Faults: 2, Swaps: 1}, {Sends: 2, Faults: 3, Swaps: 2}, {Sends: 2, Faults: 2, Swaps: 1, Timers: 2},
			{Sends: 2, Faults: 2, Swaps: 1, Begin: "FIX.4.1"}, {Sends: 2, Faults: 2, Swaps: 1, Begin: "FIX.4.0"}, {Sends: 2, Faults: 2, Swaps: 1, Begin: "FIX.4.4"},
			{Sends: 2, Faults: 2, Swaps: 1, Begin: "FIX.4.4", NextExpected: true}, {Sends: 2, Faults: 2, Swaps: 0, Stops: true}}
		maxDepth = 90
		c.SetDeadline(55 * time.Minute)
	}
	budget := budgets[0]
	c.SetRule(fmt.Sprintf("BFS over the deviation events {application send on either side (also while disconnected), connection cut (loses all in-flight bytes in both directions), engine restart on the file store (after a cut, or after a graceful stop with its Logout exchange), delivering the other wire first, the silent-peer timer firing on either side (TestRequest racing the recovery)} interleaved at every step of the default schedule of two real sessions (initiator + acceptor) joined by two FIFO wires through the real stream parser; budget profiles (sends per side / faults / ordering deviations / timer firings) quick 2/1/0/0, 1/1/1/0, 1/2/0/0, 1/1/0/1, FIX.4.1 1/1/0/0 (EnableNextExpectedMsgSeqNum=Y, FIX.4.4) 1/1/0/0 and (with graceful stops) 2/1/0/0, thorough 2/2/1/0, 3/2/1/0, 2/3/2/0, 2/2/1/2 and FIX.4.0/4.1/4.4 2/2/1/0 (first: %d/%d/%d); states de-duplicated by the canonical key of both sessions + wires + deliveries; safety in every state, convergence probe (reconnect, quiesce, up to 3 heartbeat rounds) from every state", budget.Sends, budget.Faults, budget.Swaps))
	c.Assume("sequence resets disabled; FIX.4.2; heartbeat timers are fired by the probe, not by wall-clock", "a connection cut loses in-flight bytes of both directions at the same instant (combined with ordering deviations for asymmetric loss)",
		"restarts only with the file store; the memory-store run explores cuts only",
		"one profile runs both engines with EnableNextExpectedMsgSeqNum=Y (FIX.4.4): outside the statement's default configuration, explored because the option replaces the recovery protocol; not replayed on the real pair")
	scratch, cleanup := core.Scratch("c05")
	defer cleanup()
	var e2eItems []e2eItem
	var e2eMuLocal sync.Mutex
	for bi, budget := range budgets {
		opt := ""
		if budget.NextExpected {
			opt = " EnableNextExpectedMsgSeqNum=Y"
		}
		for _, file := range []bool{false, true} {
			type node struct{ path []uint8 }
			seen := sync.Map{}
			var states, transitions, probes int64
			frontier := []node{{}}
			depthDone := 0
			capped := false
			for depth := 1; depth <= maxDepth && len(frontier) > 0; depth++ {
				var next []node
				var mu sync.Mutex
				var idx int64 = -1
				var wg sync.WaitGroup
				for wk := 0; wk < runtime.NumCPU(); wk++ {
					wg.Add(1)
					go func() {
						defer wg.Done()
						var local []node
						for {
							i := atomic.AddInt64(&idx, 1)
							if int(i) >= len(frontier) {
								break
							}
							if i%16 == 0 && (c.Expired() || atomic.LoadInt64(&states) > 4_000_000) {
								capped = true // time budget, or the state table has reached its memory budget
								break
							}
							for e := uint8(0); e <= evStopA; e++ {
								path := append(append([]uint8{}, frontier[i].path...), e)
								p, ok, err := c05Build(file, scratch, path, budget)
								if err != nil {
									c.EngineError(err.Error())
									continue
								}
								if !ok {
									p.Close()
									continue
								}
								atomic.AddInt64(&transitions, 1)
								if r, w := c05Safety(p); r != "" {
									c.Violation(fmt.Sprintf("%s file=%v%s", r, file, opt), w+" | "+c05Describe(path)+" | trace: "+strings.Join(p.Trace, "; "), "C05/path", c05Case{File: file, Path: path, Budget: budget})
									p.Close()
									continue
								}
								h := fnv.New64a()
								h.Write([]byte(p.Key()))
								// budgets used are part of the state
								cnt := [11]int{}
								for _, x := range path {
									cnt[x]++
								}
								fmt.Fprintf(h, "|%d,%d,%d,%d,%d", cnt[evSendI], cnt[evSendA], cnt[evCut]+cnt[evRestartI]+cnt[evRestartA]+cnt[evStopI]+cnt[evStopA], cnt[evSwap], cnt[evPeerI]+cnt[evPeerA])
								if _, dup := seen.LoadOrStore(h.Sum64(), true); dup {
									p.Close()
									continue
								}
								atomic.AddInt64(&states, 1)
								local = append(local, node{path})
								hasStop := false
								for _, ev := range path {
									if ev == evStopI || ev == evStopA {
										hasStop = true // (a graceful Stop() of a logged-on engine leaves its LogoutTimeout goroutine behind: not replayed in a bubble)
									}
								}
								if budget.Timers == 0 && !budget.NextExpected && !hasStop && (!quick || bi == 0 || bi == 1 || bi == 4) {
									// one representative path per model state goes to the real engines
									e2eMuLocal.Lock()
									e2eItems = append(e2eItems, e2eItem{File: file, Path: path, Budget: budget})
									if !quick || bi == 0 {
										for _, ev := range path {
											if ev == evCut {
												// the same path with its cuts happening the other way: writes fail first
												e2eItems = append(e2eItems, e2eItem{File: file, Path: path, Budget: budget, Mode: 1})
												break
											}
										}
									}
									e2eMuLocal.Unlock()
								}
								// convergence probe from this state
								atomic.AddInt64(&probes, 1)
								if r, w := c05Converge(p); r != "" {
									c.Violation(fmt.Sprintf("%s file=%v%s", r, file, opt), w+" | "+c05Describe(path)+" | trace: "+strings.Join(p.Trace, "; "), "C05/path", c05Case{File: file, Path: path, Budget: budget, Probe: true})
								}
								p.Close()
							}
						}
						mu.Lock()
						next = append(next, local...)
						mu.Unlock()
					}()
				}
				wg.Wait()
				if capped {
					break
				}
				depthDone = depth
				frontier = next
			}
			c.AddStates(states)
			c.AddTransitions(transitions)
			c.AddEval(transitions)
			c.DistinctN(states)
			store := "memory"
			if file {
				store = "file"
			}
			c.Set(fmt.Sprintf("depth_completed_%s_%d_%d_%d_t%d%s%s", store, budget.Sends, budget.Faults, budget.Swaps, budget.Timers, budget.Begin, map[bool]string{true: "_789"}[budget.NextExpected]+map[bool]string{true: "_stops"}[budget.Stops]), depthDone)
			c.AddCounter("convergence_probes", probes)
			if capped {
				c.Cap(fmt.Sprintf("%s store: search stopped at depth %d", store, depthDone))
			} else if len(frontier) > 0 {
				c.Cap(fmt.Sprintf("%s store: frontier not empty at depth bound %d", store, maxDepth))
			}
			if len(frontier) > 0 {
				c.Sample(map[string]any{"store": store, "path": c05Describe(frontier[len(frontier)/2].path)})
			}
			c.Sample(map[string]any{"store": store, "budget": budget, "states": states, "transitions": transitions, "depth_completed": depthDone})
		}
	}
	e2eBudget := 4 * time.Minute
	if !quick {
		e2eBudget = 25 * time.Minute
	}
	runC05E2E(c, e2eItems, e2eBudget)
}
