package checks

import (
	"fmt"
	"os"

	"github.com/quickfixgo/quickfix"

	"verif/internal/core"
	"verif/internal/fixscan"
	"verif/internal/sessmc"
)

// ---------- C01 monitor: in-order, exactly-once delivery ----------

type c01Mon struct {
	last    int  // highest number delivered in this epoch
	pending bool // a FromApp happened and T has not advanced yet
	q       int
	rel     int // last - T at the end of the previous step (state key, valid for absolute and relative keys)
}

func (m *c01Mon) Key() string {
	if m.last == 0 {
		return "c01:none"
	}
	return fmt.Sprintf("c01:%d", m.rel)
}

func (m *c01Mon) Step(w *sessmc.World, e *sessmc.Event, obs []sessmc.Obs) (string, string) {
	st := w.VS.Snapshot().State
	for _, o := range obs {
		switch o.K {
		case "panic":
			return "C01/panic", o.Txt
		case "st":
			if o.Op == "Reset" {
				m.last, m.pending = 0, false
				continue
			}
			if o.T1 < o.T0 {
				return "C01/R4-target-moved-back op=" + o.Op, fmt.Sprintf("expected inbound number moved back %d→%d by %s(%d) without reset", o.T0, o.T1, o.Op, o.Arg)
			}
			if m.pending && o.T1 != o.T0 {
				if o.T1 != m.q+1 {
					return "C01/R2-advance-not-one op=" + o.Op, fmt.Sprintf("after delivering %d the expected number went %d→%d", m.q, o.T0, o.T1)
				}
				m.pending = false
			}
		case "FromApp":
			if m.pending {
				return "C01/R2-no-advance-before-next-delivery", fmt.Sprintf("FromApp(%d) while expected number had not advanced after delivering %d", o.Seq, m.q)
			}
			if o.Seq != o.T0 {
				return "C01/R1-delivered-off-sequence state=" + st, fmt.Sprintf("FromApp got MsgSeqNum %d while next expected was %d", o.Seq, o.T0)
			}
			if o.Seq <= m.last {
				return "C01/R3-not-increasing", fmt.Sprintf("FromApp got %d after %d in the same epoch", o.Seq, m.last)
			}
			m.last, m.pending, m.q = o.Seq, true, o.Seq
		case "FromAdmin":
			if m.pending {
				return "C01/R2-no-advance-before-next-callback", fmt.Sprintf("FromAdmin(%s,%d) before expected number advanced past delivered %d", o.Type, o.Seq, m.q)
			}
		}
	}
	m.rel = m.last - w.T()
	if m.pending {
		return "C01/R2-no-advance-in-transition", fmt.Sprintf("transition ended with %d delivered but expected number still %d", m.q, w.T())
	}
	return "", ""
}

// c01Alphabet: inbound/timer/connection events (≈30), see DESIGN §3 C01.
func c01Alphabet() []*sessmc.Event {
	a := []*sessmc.Event{}
	for _, rel := range []int{-1, 0, 1, 2, 3} {
		a = append(a, sessmc.EvIn("D", rel, false))
	}
	for _, rel := range []int{-1, 0, 1, 2} {
		a = append(a, sessmc.EvIn("D", rel, true))
	}
	a = append(a, sessmc.EvIn("0", 0, false), sessmc.EvIn("0", 1, false))
	a = append(a, sessmc.EvIn("1", 0, false, fixscan.Field{112, "X"}))
	for _, rel := range []int{0, 1} {
		for _, nr := range []int{1, 2, 3} {
			a = append(a, sessmc.EvSeqReset(rel, nr, "Y", true))
		}
	}
	a = append(a, sessmc.EvSeqResetT(0, -1, "", false), sessmc.EvSeqResetT(0, 2, "", false), sessmc.EvSeqResetT(-2, -1, "", false))
	a = append(a, sessmc.EvSeqReset(1, 0, "Y", false)) // early gap fill that fills nothing
	a = append(a, sessmc.EvIn("2", 0, false, fixscan.Field{7, "1"}, fixscan.Field{16, "0"}))
	a = append(a, sessmc.EvIn("5", 0, false), sessmc.EvIn("3", 0, false, fixscan.Field{45, "1"}))
	a = append(a, sessmc.EvLogon(0, 0, ""), sessmc.EvLogon(1, 0, ""), sessmc.EvLogon(0, 1, "Y"))
	a = append(a, sessmc.EvTimeout(quickfix.VerifPeerTimeout), sessmc.EvTimeout(quickfix.VerifNeedHeartbeat))
	a = append(a, sessmc.EvDisconnect(), sessmc.EvConnect(), sessmc.EvFlush())
	return a
}

func c01Configs(quick bool) []sessmc.Config {
	var out []sessmc.Config
	for _, ini := range []bool{false, true} {
		for _, bs := range []string{"FIX.4.0", "FIX.4.2", "FIX.4.4", "FIXT.1.1"} {
			for _, chunk := range []int{0, 2} {
				for _, rej := range []bool{false, true} {
					out = append(out, sessmc.Config{Initiator: ini, BeginString: bs, Chunk: chunk, AppReject: rej})
				}
			}
		}
	}
	return out
}

func init() {
	register("C01", core.LevelMC, runC01)
	variantDefs["C01/persistent"] = func(cfg sessmc.Config) searchSpec {
		return searchSpec{cfg: cfg, alphabet: c01PersistentAlphabet(), mons: func() []sessmc.Monitor { return []sessmc.Monitor{&c01Mon{}} }, variant: "C01/persistent"}
	}
	variantDefs["C01"] = func(cfg sessmc.Config) searchSpec {
		return searchSpec{cfg: cfg, alphabet: c01Alphabet(), mons: func() []sessmc.Monitor { return []sessmc.Monitor{&c01Mon{}} }, variant: "C01"}
	}
}

// c01PersistentAlphabet: the traffic that moves the expected number, with connection cycles and engine restarts
// on a persistent store (what was delivered before a restart is not delivered again after it).
func c01PersistentAlphabet() []*sessmc.Event {
	return []*sessmc.Event{sessmc.EvConnect(), sessmc.EvDisconnect(), sessmc.EvRestart(), sessmc.EvLogon(0, 0, ""), sessmc.EvLogon(2, 0, ""),
		sessmc.EvIn("D", 0, false), sessmc.EvIn("D", 1, false), sessmc.EvIn("D", 0, true), sessmc.EvIn("0", 0, false),
		sessmc.EvSeqReset(0, 2, "Y", true), sessmc.EvSeqResetT(0, 3, "", false), sessmc.EvSend(), sessmc.EvFlush(), sessmc.EvIn("5", 0, false)}
}

func runC01(c *core.Ctx) {
	depth := 5
	relDepth := 6
	if !c.Quick() {
		depth, relDepth = 5, 7
		c.SetDeadline(40 * 60e9)
	} else {
		c.SetDeadline(4 * 60e9)
	}
	c.SetRule("BFS over event sequences on a real session (successor = fresh session + replay of path + 1 event); a state is distinct by its canonical key (state nest, counters, stash, resend range, queue, timers, stored history, monitor state)")
	c.Assume("alphabet of ~33 events with MsgSeqNum relative to the expected number (T-1..T+3)", "SendingTime always fresh; MaxLatency default",
		"relative state key assumes session logic only compares/increments sequence numbers (checked differentially against absolute keys at the smaller depth)")
	minDepth := 99
	for _, cfg := range c01Configs(c.Quick()) {
		// absolute keys from a never-connected session
		sp := variantDefs["C01"](cfg)
		sp.depth = depth
		x := runSearch(c, sp)
		if x.DepthDone < minDepth {
			minDepth = x.DepthDone
		}
		// relative keys, deeper
		sp.depth, sp.relative, sp.conform = relDepth, true, 12
		runSearch(c, sp)
		if c.Expired() {
			break
		}
	}
	// persistent stores with restarts (file; SQL on sqlite with sub/location IDs in the session identity)
	dir, cleanup := core.Scratch("c01p")
	defer cleanup()
	tp := ""
	if tmpl, err := sqliteTemplateDB(); err != nil {
		c.EngineError("sqlite: " + err.Error())
	} else {
		tp = dir + "/template.db"
		if err := os.WriteFile(tp, tmpl, 0o644); err != nil {
			c.EngineError(err.Error())
		}
	}
	for _, ini := range []bool{false, true} {
		for _, sqlStore := range []bool{false, true} {
			cfg := sessmc.Config{Initiator: ini, BeginString: "FIX.4.2", FileDir: dir, RefreshOnLogon: !ini}
			if sqlStore {
				if tp == "" {
					continue
				}
				cfg.SQLTemplate, cfg.SenderSub, cfg.SenderLoc, cfg.TargetSub, cfg.TargetLoc = tp, "SS", "SL", "TS", "TL"
			}
			sp := variantDefs["C01/persistent"](cfg)
			sp.depth = 5
			if !c.Quick() {
				sp.depth = 6
			}
			runSearch(c, sp)
		}
	}
	runConformance(c)
	c.Set("depth_completed_absolute_keys", minDepth)
	c.Set("depth_target_relative_keys", relDepth)
}
