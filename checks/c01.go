package checks

import (
	"fmt"
	"os"
	"strings"

	"github.com/quickfixgo/quickfix"

	"verif/internal/core"
	"verif/internal/fixscan"
	"verif/internal/sessmc"
)

// ---------- C01 monitor: in-order, exactly-once delivery ----------

type c01Mon struct {
	last    int  // highest number delivered in this epoch
	pending bool // a FromApp happened and T has not advanced yet
	q       int
	rel     int   // last - T at the end of the previous step (state key, valid for absolute and relative keys)
	kept    []int // numbers of the messages held by the session at the end of the previous step
}

func (m *c01Mon) Key() string {
	if m.last == 0 {
		return "c01:none"
	}
	return fmt.Sprintf("c01:%d", m.rel)
}

func (m *c01Mon) Step(w *sessmc.World, e *sessmc.Event, obs []sessmc.Obs) (string, string) {
	st := w.VS.Snapshot().State
	for _, o := range obs {
		switch o.K {
		case "panic":
			return "C01/panic", o.Txt
		case "st":
			if o.Op == "Reset" {
				m.last, m.pending = 0, false
				continue
			}
			if o.T1 < o.T0 {
				return "C01/R4-target-moved-back op=" + o.Op, fmt.Sprintf("expected inbound number moved back %d→%d by %s(%d) without reset", o.T0, o.T1, o.Op, o.Arg)
			}
			if o.Op == "IncrT" && o.T1 == o.T0+1 {
				// R5: the expected number is stepped only past a message that carries it: the message being processed,
				// or one kept earlier and processed now
				have := w.LastIn != nil && e.K == "in" && w.LastIn.Seq() == o.T0
				if e.K == "in" && e.Behind != nil {
					have = true // (a second message is buffered behind the first: its number is not visible here)
				}
				for _, k := range m.kept {
					if k == o.T0 {
						have = true
					}
				}
				if !have {
					q := -1
					if w.LastIn != nil {
						q = w.LastIn.Seq()
					}
					return "C01/R5-stepped-past-a-number-not-received state=" + st, fmt.Sprintf("the expected number was stepped %d→%d while processing %s (MsgSeqNum %d); no message numbered %d is at hand (kept: %v): that message can no longer be delivered", o.T0, o.T1, e.Name, q, o.T0, m.kept)
				}
			}
			if m.pending && o.T1 != o.T0 {
				if o.T1 != m.q+1 {
					return "C01/R2-advance-not-one op=" + o.Op, fmt.Sprintf("after delivering %d the expected number went %d→%d", m.q, o.T0, o.T1)
				}
				m.pending = false
			}
		case "FromApp":
			if m.pending {
				return "C01/R2-no-advance-before-next-delivery", fmt.Sprintf("FromApp(%d) while expected number had not advanced after delivering %d", o.Seq, m.q)
			}
			if o.Seq != o.T0 {
				return "C01/R1-delivered-off-sequence state=" + st, fmt.Sprintf("FromApp got MsgSeqNum %d while next expected was %d", o.Seq, o.T0)
			}
			if o.Seq <= m.last {
				return "C01/R3-not-increasing", fmt.Sprintf("FromApp got %d after %d in the same epoch", o.Seq, m.last)
			}
			m.last, m.pending, m.q = o.Seq, true, o.Seq
		case "FromAdmin":
			if m.pending {
				return "C01/R2-no-advance-before-next-callback", fmt.Sprintf("FromAdmin(%s,%d) before expected number advanced past delivered %d", o.Type, o.Seq, m.q)
			}
		}
	}
	m.rel = m.last - w.T()
	m.kept = append(m.kept[:0], w.VS.Snapshot().Stash...)
	if m.pending {
		return "C01/R2-no-advance-in-transition", fmt.Sprintf("transition ended with %d delivered but expected number still %d", m.q, w.T())
	}
	return "", ""
}

// c01Alphabet: inbound/timer/connection events (≈30), see DESIGN §3 C01.
func c01Alphabet() []*sessmc.Event {
	a := []*sessmc.Event{}
	for _, rel := range []int{-1, 0, 1, 2, 3} {
		a = append(a, sessmc.EvIn("D", rel, false))
	}
	for _, rel := range []int{-1, 0, 1, 2} {
		a = append(a, sessmc.EvIn("D", rel, true))
	}
	a = append(a, sessmc.EvIn("0", 0, false), sessmc.EvIn("0", 1, false))
	a = append(a, sessmc.EvIn("1", 0, false, fixscan.Field{112, "X"}))
	for _, rel := range []int{0, 1} {
		for _, nr := range []int{1, 2, 3} {
			a = append(a, sessmc.EvSeqReset(rel, nr, "Y", true))
		}
	}
	a = append(a, sessmc.EvSeqResetT(0, -1, "", false), sessmc.EvSeqResetT(0, 2, "", false), sessmc.EvSeqResetT(-2, -1, "", false))
	a = append(a, sessmc.EvSeqReset(1, 0, "Y", false)) // early gap fill that fills nothing
	a = append(a, sessmc.EvIn("2", 0, false, fixscan.Field{7, "1"}, fixscan.Field{16, "0"}))
	a = append(a, sessmc.EvIn("5", 0, false), sessmc.EvIn("3", 0, false, fixscan.Field{45, "1"}))
	// a ResendRequest is answered whatever its number; numbered above the expected one (the peer's request overtakes a
	// hole in its own stream) or below it (replayed) it consumes no number
	a = append(a, sessmc.EvIn("2", 1, false, fixscan.Field{7, "1"}, fixscan.Field{16, "0"}), sessmc.EvIn("2", -1, true, fixscan.Field{7, "1"}, fixscan.Field{16, "0"}))
	// administrative messages numbered above the expected one (they open a recovery like any other message)
	a = append(a, sessmc.EvIn("3", 1, false, fixscan.Field{45, "1"}), sessmc.EvIn("1", 1, false, fixscan.Field{112, "X"}), sessmc.EvIn("j", 1, false, fixscan.Field{45, "1"}, fixscan.Field{372, "D"}, fixscan.Field{380, "3"}))
	a = append(a, sessmc.EvLogon(0, 0, ""), sessmc.EvLogon(1, 0, ""), sessmc.EvLogon(0, 1, "Y"))
	a = append(a, sessmc.EvTimeout(quickfix.VerifPeerTimeout), sessmc.EvTimeout(quickfix.VerifNeedHeartbeat))
	a = append(a, sessmc.EvDisconnect(), sessmc.EvConnect(), sessmc.EvFlush())
	return a
}

func c01Configs(quick bool) []sessmc.Config {
	var out []sessmc.Config
	for _, ini := range []bool{false, true} {
		for _, bs := range []string{"FIX.4.0", "FIX.4.2", "FIX.4.4", "FIXT.1.1"} {
			for _, chunk := range []int{0, 2} {
				for _, rej := range []bool{false, true} {
					out = append(out, sessmc.Config{Initiator: ini, BeginString: bs, Chunk: chunk, AppReject: rej})
				}
			}
		}
	}
	return out
}

func init() {
	register("C01", core.LevelMC, runC01)
	variantDefs["C01/persistent"] = func(cfg sessmc.Config) searchSpec {
		return searchSpec{cfg: cfg, alphabet: c01PersistentAlphabet(), mons: func() []sessmc.Monitor { return []sessmc.Monitor{&c01Mon{}} }, variant: "C01/persistent"}
	}
	variantDefs["C01"] = func(cfg sessmc.Config) searchSpec {
		return searchSpec{cfg: cfg, alphabet: c01Alphabet(), mons: func() []sessmc.Monitor { return []sessmc.Monitor{&c01Mon{}} }, variant: "C01"}
	}
}

// c01PersistentAlphabet: the traffic that moves the expected number, with connection cycles and engine restarts
// on a persistent store (what was delivered before a restart is not delivered again after it).
func c01PersistentAlphabet() []*sessmc.Event {
	return []*sessmc.Event{sessmc.EvConnect(), sessmc.EvDisconnect(), sessmc.EvRestart(), sessmc.EvLogon(0, 0, ""), sessmc.EvLogon(2, 0, ""),
		sessmc.EvIn("D", 0, false), sessmc.EvIn("D", 1, false), sessmc.EvIn("D", 0, true), sessmc.EvIn("0", 0, false),
		sessmc.EvSeqReset(0, 2, "Y", true), sessmc.EvSeqResetT(0, 3, "", false), sessmc.EvSend(), sessmc.EvFlush(), sessmc.EvIn("5", 0, false)}
}

func runC01(c *core.Ctx) {
	depth := 5
	relDepth := 6
	if !c.Quick() {
		depth, relDepth = 5, 7
		c.SetDeadline(40 * 60e9)
	} else {
		c.SetDeadline(4 * 60e9)
	}
	c.SetRule("BFS over event sequences on a real session (successor = fresh session + replay of path + 1 event); a state is distinct by its canonical key (state nest, counters, stash, resend range, queue, timers, stored history, monitor state)")
	c.Assume("alphabet of ~33 events with MsgSeqNum relative to the expected number (T-1..T+3)", "SendingTime always fresh; MaxLatency default",
		"relative state key assumes session logic only compares/increments sequence numbers (checked differentially against absolute keys at the smaller depth)")
	minDepth := 99
	for _, cfg := range c01Configs(c.Quick()) {
		// absolute keys from a never-connected session
		sp := variantDefs["C01"](cfg)
		sp.depth = depth
		x := runSearch(c, sp)
		if x.DepthDone < minDepth {
			minDepth = x.DepthDone
		}
		// relative keys, deeper
		sp.depth, sp.relative, sp.conform = relDepth, true, 12
		runSearch(c, sp)
		if c.Expired() {
			break
		}
	}
	// persistent stores with restarts (file; SQL on sqlite with sub/location IDs in the session identity)
	dir, cleanup := core.Scratch("c01p")
	defer cleanup()
	tp := ""
	if tmpl, err := sqliteTemplateDB(); err != nil {
		c.EngineError("sqlite: " + err.Error())
	} else {
		tp = dir + "/template.db"
		if err := os.WriteFile(tp, tmpl, 0o644); err != nil {
			c.EngineError(err.Error())
		}
	}
	for _, ini := range []bool{false, true} {
		for _, sqlStore := range []bool{false, true} {
			cfg := sessmc.Config{Initiator: ini, BeginString: "FIX.4.2", FileDir: dir, RefreshOnLogon: !ini}
			if sqlStore {
				if tp == "" {
					continue
				}
				cfg.SQLTemplate, cfg.SenderSub, cfg.SenderLoc, cfg.TargetSub, cfg.TargetLoc = tp, "SS", "SL", "TS", "TL"
			}
			sp := variantDefs["C01/persistent"](cfg)
			sp.depth = 5
			if !c.Quick() {
				sp.depth = 6
			}
			runSearch(c, sp)
		}
	}
	runConformance(c)
	runC01Sched(c)
	c.Set("depth_completed_absolute_keys", minDepth)
	c.Set("depth_target_relative_keys", relDepth)
}

// runC01Sched: the expected inbound number as the counter file holds it, under every interleaving (preemption bound 2,
// thorough 3) of the session thread consuming inbound messages with an application thread sending, with the file
// store's own lock as a scheduling point (Engine B, scenario S11): a fresh store opened on the files must say what the
// running store says.
func runC01Sched(c *core.Ctx) {
	note, err := c02Build(false)
	c02BuildOnce.Do(func() { c02BuildErr = err })
	if err != nil {
		c.EngineError(err.Error())
		return
	}
	_ = note
	bound := 2
	if !c.Quick() {
		bound = 3
	}
	dir, cleanup := core.Scratch("c01s")
	defer cleanup()
	const scn = "S11-inbound-traffic-during-sends"
	rep, stderr, err := c02Run("-scenario", scn, "-bound", fmt.Sprint(bound), "-filestore", dir, "-budget", "3m")
	if err != nil {
		c.EngineError(fmt.Sprintf("%s: %v %s", scn, err, stderr))
		return
	}
	c.AddEval(rep.Executions)
	c.DistinctN(rep.Executions)
	c.Set("schedules_inbound_counter_file_store", rep.Executions)
	c.Set("schedules_preemption_bound", bound)
	if !rep.Completed {
		c.Cap("schedule exploration of the file store's counter files not completed within its budget")
	}
	if rep.Engine != "" {
		c.EngineError(fmt.Sprintf("%s: %s", scn, rep.Engine))
	}
	if rep.Rule != "" {
		rule := rep.Rule
		if strings.HasPrefix(rule, "C02/R9") {
			rule = "C01/R6-counter-files-differ-from-running-store"
		}
		c.Violation(rule+" scenario="+scn+" store=file", fmt.Sprintf("%s | schedule (thread chosen at each point): %v", rep.What, rep.Schedule), "C02/sched", c02Case{Scenario: scn, Choices: rep.Choices, FileStore: true})
	}
}
