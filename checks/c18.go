package checks

import (
	"encoding/json"
	"fmt"
	"runtime"
	"strings"
	"sync"
	"sync/atomic"
	"time"
	_ "time/tzdata"

	"github.com/quickfixgo/quickfix"
	"github.com/quickfixgo/quickfix/config"

	"verif/internal/core"
)

// ---------- C18: session schedules classify instants by the configured windows ----------

type c18Cfg struct {
	Weekly   bool   `json:"weekly"`
	Start    [3]int `json:"start"`
	End      [3]int `json:"end"`
	Days     []int  `json:"days,omitempty"` // daily: weekday set (empty = every day)
	StartDay int    `json:"start_day"`
	EndDay   int    `json:"end_day"`
	Zone     string `json:"zone"`
	Settings bool   `json:"via_settings"` // built through the session settings path instead of the constructors
}

func (c c18Cfg) String() string {
	if c.Weekly {
		return fmt.Sprintf("weekly %s %02d:%02d:%02d - %s %02d:%02d:%02d %s settings=%v", time.Weekday(c.StartDay), c.Start[0], c.Start[1], c.Start[2], time.Weekday(c.EndDay), c.End[0], c.End[1], c.End[2], c.Zone, c.Settings)
	}
	return fmt.Sprintf("daily %02d:%02d:%02d-%02d:%02d:%02d days=%v %s settings=%v", c.Start[0], c.Start[1], c.Start[2], c.End[0], c.End[1], c.End[2], c.Days, c.Zone, c.Settings)
}

type c18Window struct{ open, close time.Time }

func secs(t [3]int) int { return t[0]*3600 + t[1]*60 + t[2] }

// c18Windows enumerates the windows of a configuration as absolute intervals around [from, to].
func c18Windows(c c18Cfg, loc *time.Location, from, to time.Time) []c18Window {
	var out []c18Window
	d0 := from.In(loc).AddDate(0, 0, -9)
	d0 = time.Date(d0.Year(), d0.Month(), d0.Day(), 0, 0, 0, 0, loc)
	days := int(to.Sub(from).Hours()/24) + 20
	at := func(d time.Time, plus int, tod [3]int) time.Time {
		return time.Date(d.Year(), d.Month(), d.Day()+plus, tod[0], tod[1], tod[2], 0, loc)
	}
	for i := 0; i < days; i++ {
		d := time.Date(d0.Year(), d0.Month(), d0.Day()+i, 12, 0, 0, 0, loc)
		wd := int(d.Weekday())
		if !c.Weekly {
			if len(c.Days) > 0 {
				ok := false
				for _, x := range c.Days {
					if x == wd {
						ok = true
					}
				}
				if !ok {
					continue
				}
			}
			plus := 0
			if secs(c.Start) >= secs(c.End) {
				plus = 1
			}
			out = append(out, c18Window{at(d, 0, c.Start), at(d, plus, c.End)})
			continue
		}
		if wd != c.StartDay {
			continue
		}
		plus := (c.EndDay - c.StartDay + 7) % 7
		if plus == 0 && secs(c.Start) >= secs(c.End) {
			plus = 7
		}
		out = append(out, c18Window{at(d, 0, c.Start), at(d, plus, c.End)})
	}
	return out
}

func c18Find(ws []c18Window, t time.Time) int {
	for i, w := range ws {
		if !t.Before(w.open) && !t.After(w.close) {
			return i
		}
	}
	return -1
}

var c18Zones = []string{"UTC", "America/New_York", "Europe/London", "Asia/Kolkata", "Australia/Lord_Howe", "Etc/GMT+3", "Etc/GMT-11"}

func c18Build(c c18Cfg) (*quickfix.VerifTimeRange, *time.Location, error) {
	loc, err := time.LoadLocation(c.Zone)
	if err != nil {
		return nil, nil, err
	}
	if c.Settings {
		ss := quickfix.NewSessionSettings()
		ss.Set(config.BeginString, "FIX.4.2")
		ss.Set(config.SenderCompID, "S")
		ss.Set(config.TargetCompID, "T")
		ss.Set(config.StartTime, fmt.Sprintf("%02d:%02d:%02d", c.Start[0], c.Start[1], c.Start[2]))
		ss.Set(config.EndTime, fmt.Sprintf("%02d:%02d:%02d", c.End[0], c.End[1], c.End[2]))
		ss.Set(config.TimeZone, c.Zone)
		if c.Weekly {
			ss.Set(config.StartDay, time.Weekday(c.StartDay).String())
			ss.Set(config.EndDay, time.Weekday(c.EndDay).String()[:3])
		} else if len(c.Days) > 0 {
			var names []string
			for i, d := range c.Days {
				n := time.Weekday(d).String()
				if i%2 == 1 {
					n = n[:3]
				}
				names = append(names, n)
			}
			ss.Set(config.Weekdays, strings.Join(names, ","))
		}
		vs, err := quickfix.VerifNewSession(false, quickfix.SessionID{BeginString: "FIX.4.2", SenderCompID: "S", TargetCompID: "T"},
			quickfix.NewMemoryStoreFactory(), ss, quickfix.NewNullLogFactory(), nil)
		if err != nil {
			return nil, nil, err
		}
		return vs.SessionTime(), loc, nil
	}
	if c.Weekly {
		r, err := quickfix.VerifWeekRange(c.Start[0], c.Start[1], c.Start[2], c.End[0], c.End[1], c.End[2], time.Weekday(c.StartDay), time.Weekday(c.EndDay), loc)
		return r, loc, err
	}
	var days []time.Weekday
	for _, d := range c.Days {
		days = append(days, time.Weekday(d))
	}
	r, err := quickfix.VerifDailyRange(c.Start[0], c.Start[1], c.Start[2], c.End[0], c.End[1], c.End[2], days, loc)
	return r, loc, err
}

// instants: a grid away from every window edge (7 minutes past each half hour), excluding local times inside the
// hours around a daylight-saving transition.
func c18Grid(loc *time.Location, from time.Time, weeks int, step time.Duration) []time.Time {
	var out []time.Time
	end := from.AddDate(0, 0, 7*weeks)
	for t := from; t.Before(end); t = t.Add(step) {
		l := t.In(loc)
		_, o1 := l.Add(-4 * time.Hour).Zone()
		_, o2 := l.Add(4 * time.Hour).Zone()
		if o1 != o2 {
			continue
		}
		out = append(out, t)
	}
	return out
}

type c18Case struct {
	Cfg  c18Cfg `json:"cfg"`
	T1   int64  `json:"t1_unix"`
	T2   int64  `json:"t2_unix,omitempty"`
	Pair bool   `json:"pair"`
}

func c18EvalOne(cs c18Case) (rule, what string, err error) {
	r, loc, err := c18Build(cs.Cfg)
	if err != nil {
		return "", "", err
	}
	t1 := time.Unix(cs.T1, 0).UTC()
	t2 := time.Unix(cs.T2, 0).UTC()
	lo, hi := t1, t1
	if cs.Pair {
		if t2.Before(lo) {
			lo = t2
		}
		if t2.After(hi) {
			hi = t2
		}
	}
	ws := c18Windows(cs.Cfg, loc, lo, hi)
	rule, what = c18Judge(cs.Cfg, r, ws, loc, t1, t2, cs.Pair)
	return
}

func c18Judge(cfg c18Cfg, r *quickfix.VerifTimeRange, ws []c18Window, loc *time.Location, t1, t2 time.Time, pair bool) (string, string) {
	w1 := c18Find(ws, t1)
	if !pair {
		if got := r.IsInRange(t1); got != (w1 >= 0) {
			return fmt.Sprintf("C18/R-in-range got=%v weekly=%v", got, cfg.Weekly), fmt.Sprintf("%s: instant %s (%s local) reported in-range=%v, windows say %v", cfg, t1.Format(time.RFC3339), t1.In(loc).Format("Mon 15:04:05"), got, w1 >= 0)
		}
		// the representation of the instant must not matter
		if r.IsInRange(t1.In(loc)) != r.IsInRange(t1) || r.IsInRange(t1.In(time.FixedZone("x", 9*3600+1800))) != r.IsInRange(t1) {
			return "C18/R-depends-on-representation", fmt.Sprintf("%s: instant %s classified differently depending on its Location", cfg, t1.Format(time.RFC3339))
		}
		return "", ""
	}
	w2 := c18Find(ws, t2)
	want := w1 >= 0 && w1 == w2
	got := r.IsInSameRange(t1, t2)
	if got != want {
		return fmt.Sprintf("C18/S-same-range got=%v weekly=%v", got, cfg.Weekly), fmt.Sprintf("%s: %s and %s (%s / %s local) reported same-session=%v; windows #%d and #%d", cfg, t1.Format(time.RFC3339), t2.Format(time.RFC3339), t1.In(loc).Format("Mon 15:04"), t2.In(loc).Format("Mon 15:04"), got, w1, w2)
	}
	if r.IsInSameRange(t2, t1) != got {
		return "C18/S-not-symmetric", fmt.Sprintf("%s: %s vs %s", cfg, t1.Format(time.RFC3339), t2.Format(time.RFC3339))
	}
	if got && !(r.IsInRange(t1) && r.IsInRange(t2)) {
		return "C18/S-same-range-but-not-in-range", cfg.String()
	}
	return "", ""
}

func init() {
	register("C18", core.LevelExploration, runC18)
	core.RegisterReplay("C18/case", func(data json.RawMessage) (bool, string, error) {
		var cs c18Case
		if err := json.Unmarshal(data, &cs); err != nil {
			return false, "", err
		}
		r, w, err := c18EvalOne(cs)
		return r != "", r + ": " + w, err
	})
}

func runC18(c *core.Ctx) {
	quick := c.Quick()
	if quick {
		c.SetDeadline(4 * time.Minute)
	} else {
		c.SetDeadline(40 * time.Minute)
	}
	c.SetRule("start/end from 8 times of day (all 64 ordered pairs incl. equal) x weekday sets (quick: none, each single day, Mon-Fri, Sat+Sun; thorough: all 128) or all 49 StartDay/EndDay pairs x 7 time zones (incl. DST, a 30-minute DST zone and two POSIX-signed Etc/GMT zones) x built by constructor and by the settings path; IsInRange on a 30-minute grid (offset 7 min) over 5 weeks containing a DST transition of each zone; IsInSameRange on all pairs of a 3-hour grid; oracle = explicit enumeration of the windows as absolute intervals")
	c.Assume("instants within 4 h of a daylight-saving transition are excluded; window edges never fall into a transition hour with the chosen times",
		"evaluated at least 7 minutes away from every window edge", "tz data from Go's embedded time/tzdata")
	tods := [][3]int{{0, 0, 0}, {0, 0, 1}, {6, 0, 0}, {9, 30, 0}, {12, 0, 0}, {17, 0, 0}, {22, 0, 0}, {23, 59, 59}}
	var daySets [][]int
	if quick {
		daySets = [][]int{nil, {0}, {1}, {2}, {3}, {4}, {5}, {6}, {1, 2, 3, 4, 5}, {6, 0}}
	} else {
		for m := 0; m < 128; m++ {
			var s []int
			for d := 0; d < 7; d++ {
				if m&(1<<d) != 0 {
					s = append(s, d)
				}
			}
			daySets = append(daySets, s)
		}
	}
	var cfgs []c18Cfg
	k := 0
	for _, z := range c18Zones {
		for _, s := range tods {
			for _, e := range tods {
				for _, ds := range daySets {
					k++
					cfgs = append(cfgs, c18Cfg{Start: s, End: e, Days: ds, Zone: z, Settings: k%5 == 0})
				}
				for sd := 0; sd < 7; sd++ {
					for ed := 0; ed < 7; ed++ {
						k++
						cfgs = append(cfgs, c18Cfg{Weekly: true, Start: s, End: e, StartDay: sd, EndDay: ed, Zone: z, Settings: k%5 == 0})
					}
				}
			}
		}
	}
	c.Set("configurations", len(cfgs))
	// two five-week periods: around the northern spring transitions and around the autumn ones
	starts := []time.Time{time.Date(2024, 2, 26, 0, 7, 0, 0, time.UTC), time.Date(2024, 10, 14, 0, 7, 0, 0, time.UTC)}
	var evals, pairs int64
	var idx int64 = -1
	var wg sync.WaitGroup
	for wk := 0; wk < runtime.NumCPU(); wk++ {
		wg.Add(1)
		go func() {
			defer wg.Done()
			for {
				i := atomic.AddInt64(&idx, 1)
				if int(i) >= len(cfgs) || c.Expired() {
					return
				}
				cfg := cfgs[i]
				r, loc, err := c18Build(cfg)
				if err != nil {
					c.EngineError(cfg.String() + ": " + err.Error())
					continue
				}
				for si, from := range starts {
					grid := c18Grid(loc, from, 5, 30*time.Minute)
					ws := c18Windows(cfg, loc, from, from.AddDate(0, 0, 36))
					var n int64
					for _, t := range grid {
						n++
						if rule, what := c18Judge(cfg, r, ws, loc, t, t, false); rule != "" {
							c.Violation(rule, what, "C18/case", c18Case{Cfg: cfg, T1: t.Unix()})
							break
						}
					}
					atomic.AddInt64(&evals, n)
					// pairs on a coarser grid for a share of the configurations
					if (quick && (int(i)+si)%6 != 0) || (!quick && (int(i)+si)%2 != 0) {
						continue
					}
					g3 := c18Grid(loc, from, 3, 3*time.Hour)
					var p int64
				outer:
					for a := 0; a < len(g3); a++ {
						for b := a; b < len(g3); b++ {
							p++
							if rule, what := c18Judge(cfg, r, ws, loc, g3[a], g3[b], true); rule != "" {
								c.Violation(rule, what, "C18/case", c18Case{Cfg: cfg, T1: g3[a].Unix(), T2: g3[b].Unix(), Pair: true})
								break outer
							}
						}
					}
					atomic.AddInt64(&pairs, p)
				}
				if i%977 == 0 {
					c.Sample(cfg.String())
				}
			}
		}()
	}
	wg.Wait()
	c.AddEval(evals + pairs)
	c.DistinctN(evals + pairs)
	c.Set("in_range_evaluations", evals)
	c.Set("same_range_pairs", pairs)
	if int(idx) < len(cfgs)-1 {
		c.Cap("not all configurations evaluated")
	}
}
