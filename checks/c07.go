package checks

import (
	"fmt"
	"os"
	"strings"
	"time"

	"verif/internal/core"
	"verif/internal/fixscan"
	"verif/internal/sessmc"
)

// ---------- C07: sequence numbers persist across connections and reset only when agreed ----------
//
// Reference counter model written from the statement (see DESIGN §3 C07). After every event the
// monitor checks (i) every store reset is justified by configuration or negotiation, (ii) the
// outcome the statement gives for that event.

type c07Mon struct {
	prevS, prevT int
	prevM        string
	prevState    string
	prevConn     bool
	weSent141    bool // our Logon on this connection carried 141=Y and the reply has not arrived
	init         bool
}

func (m *c07Mon) Key() string { return fmt.Sprintf("c07:%v", m.weSent141) }

func anyResetOption(c sessmc.Config) bool {
	return c.ResetOnLogon || c.ResetOnLogout || c.ResetOnDisconnect
}
func hasResetFlag(bs string) bool { return bs != "FIX.4.0" }

func (m *c07Mon) Step(w *sessmc.World, e *sessmc.Event, obs []sessmc.Obs) (rule, what string) {
	cfg := w.Cfg
	sn := w.VS.Snapshot()
	if !m.init {
		m.init = true
		m.prevS, m.prevT, m.prevM = cfg.InitS, cfg.InitT, ""
		if m.prevS == 0 {
			m.prevS = 1
		}
		if m.prevT == 0 {
			m.prevT = 1
		}
		for i, t := range cfg.InitMsgs {
			m.prevM += fmt.Sprintf("%d%s,", i+1, t)
		}
		m.prevState = "latent"
	}
	S0, T0, M0, st0, conn0 := m.prevS, m.prevT, m.prevM, m.prevState, m.prevConn
	S1, T1, M1 := w.S(), w.T(), w.StoredTypes()
	defer func() {
		m.prevS, m.prevT, m.prevM, m.prevState, m.prevConn = S1, T1, M1, sn.State, sn.Connected
	}()
	resets := 0
	var outs []sessmc.Obs
	for _, o := range obs {
		switch {
		case o.K == "panic":
			return "C07/panic", o.Txt
		case o.K == "st" && o.Op == "Reset":
			resets++
		case o.K == "out":
			outs = append(outs, o)
		}
	}
	connEnded := conn0 && !sn.Connected
	isIn := e.K == "in" && w.LastIn != nil
	var inType, in141 string
	inSeq := 0
	if isIn {
		inType, inSeq = w.LastIn.Type(), w.LastIn.Seq()
		in141, _ = w.LastIn.Get(141)
	}
	// our Logon(s) transmitted in this transition
	var ourLogon *fixscan.Msg
	for _, o := range outs {
		if o.Type == "A" {
			ourLogon, _ = fixscan.Scan(o.Raw)
			break
		}
	}
	our141 := false
	if ourLogon != nil {
		v, _ := ourLogon.Get(141)
		our141 = v == "Y"
	}
	weSent141Before := m.weSent141
	if e.K == "connect" {
		m.weSent141 = false
		weSent141Before = false
	}
	if isIn && inType == "A" {
		m.weSent141 = false
	}
	if our141 && e.K == "connect" {
		m.weSent141 = true
	}
	// the configured daily reset time passes while connected: we send the resetting Logon ourselves
	resetTimeFired := e.K == "reset-time" && conn0
	if resetTimeFired && our141 {
		m.weSent141 = true
	}

	// ---- (i) justification of resets and of a transmitted 141=Y
	logonInLogonState := isIn && inType == "A" && conn0 && !badLogon(w, e, st0)
	if isIn && inType == "A" && badLogon(w, e, st0) {
		inType = "A-bad" // judged only by the reset-justification rule
	}
	j1 := cfg.ResetOnLogon && ((e.K == "connect" && cfg.Initiator) || (logonInLogonState && !cfg.Initiator))
	j2 := logonInLogonState && in141 == "Y" && !weSent141Before
	flagCond := cfg.Initiator && e.K == "connect" && hasResetFlag(cfg.BeginString) && anyResetOption(cfg) &&
		((S0 == 1 && T0 == 1) || cfg.ResetOnLogon)
	// the application may ask for the reset itself by flagging the outgoing Logon in its ToAdmin callback
	appAsks := cfg.AppResetFlag && cfg.Initiator && e.K == "connect" && hasResetFlag(cfg.BeginString)
	flagCond = flagCond || appAsks
	j3 := our141 && (flagCond || (logonInLogonState && in141 == "Y"))
	j4 := cfg.ResetOnLogout && isIn && inType == "5" && conn0
	j5 := cfg.ResetOnDisconnect && connEnded
	if resets > 0 && !(j1 || j2 || j3 || j4 || j5 || resetTimeFired) {
		return "C07/R1-unagreed-reset event=" + evClass(e, inType), fmt.Sprintf("store reset during %s (state %s) although no reset option applies and none was negotiated; counters %d/%d → %d/%d", e.Name, st0, S0, T0, S1, T1)
	}
	if our141 && !(flagCond || (logonInLogonState && in141 == "Y") || resetTimeFired) {
		return "C07/R2-unsolicited-reset-flag", fmt.Sprintf("Logon sent with ResetSeqNumFlag=Y during %s without configuration or request", e.Name)
	}
	if resets == 0 && !connEnded {
		// nothing may be forgotten without a reset
		if !strings.HasPrefix(M1, M0) && !sameOrExtends(M0, M1) {
			return "C07/R1-stored-messages-changed", fmt.Sprintf("stored messages changed from %q to %q without reset during %s", M0, M1, e.Name)
		}
	}

	// what the store really returns is what was saved (the file store reopens its files on restart and refresh)
	if !cfg.NoPersist {
		if act := w.StoredActual(); act != M1 {
			return "C07/R1-store-content-differs-from-saved event=" + evClass(e, inType), fmt.Sprintf("after %s the store returns %q for 1..%d, saved were %q", e.Name, act, S1-1, M1)
		}
	}

	// ---- (ii) outcomes
	switch {
	case e.K == "clock-tick":
		// a tick of the clock that crosses no configured time changes nothing
		if S1 != S0 || T1 != T0 || M1 != M0 || resets > 0 || ourLogon != nil {
			return "C07/R5-tick-without-crossing-acted", fmt.Sprintf("a clock tick that crossed no reset time changed %d/%d %q → %d/%d %q (Logon sent: %v)", S0, T0, M0, S1, T1, M1, ourLogon != nil)
		}
	case e.K == "reset-time":
		if !conn0 {
			if S1 != S0 || T1 != T0 || M1 != M0 {
				return "C07/R5-reset-time-while-disconnected", fmt.Sprintf("the reset time passed while not connected and changed %d/%d %q → %d/%d %q", S0, T0, M0, S1, T1, M1)
			}
			break
		}
		// "sent because ... ResetSeqTime applies ... the Logon itself is number 1"
		if ourLogon == nil || !our141 {
			return "C07/R5-reset-time-no-reset-logon", fmt.Sprintf("the reset time passed in state %s but no Logon with ResetSeqNumFlag=Y was sent", st0)
		}
		if ourLogon.Seq() != 1 {
			return "C07/R5-reset-logon-number", fmt.Sprintf("resetting Logon numbered %d", ourLogon.Seq())
		}
		if S1 != 2 || T1 != 1 {
			return "C07/R5-counters-after-reset-logon", fmt.Sprintf("after the resetting Logon counters are %d/%d, expected 2/1", S1, T1)
		}
	case isIn && inType == "A" && in141 == "Y" && inSeq == 1 && T0 == 1 && weSent141Before && conn0 && st0 != "logon" && w.Cfg.ResetSeqTime:
		// the peer's echo of our in-session reset: numbering continues from 1 on both sides — no second reset,
		// no second Logon numbered 1
		if resets > 0 {
			return "C07/R5-second-reset-on-echo", fmt.Sprintf("the peer's echo of our resetting Logon reset the store again (counters %d/%d → %d/%d)", S0, T0, S1, T1)
		}
		if T1 != 2 {
			return "C07/R5-target-after-echo", fmt.Sprintf("after the echo (Logon #1) the expected inbound number is %d", T1)
		}
	case e.K == "connect" && cfg.Initiator && sn.Connected:
		wantReset := cfg.ResetOnLogon || appAsks
		s, t := S0, T0
		if wantReset {
			s, t = 1, 1
		}
		wantFlag := (hasResetFlag(cfg.BeginString) && anyResetOption(cfg) && s == 1 && t == 1) || appAsks
		if ourLogon == nil {
			return "C07/R2-no-logon-on-connect", "initiator connected but transmitted no Logon"
		}
		if ourLogon.Seq() != s {
			return "C07/R2-logon-number", fmt.Sprintf("Logon numbered %d, expected %d (counters before %d/%d, ResetOnLogon=%v)", ourLogon.Seq(), s, S0, T0, cfg.ResetOnLogon)
		}
		if our141 != wantFlag {
			return "C07/R2-logon-flag", fmt.Sprintf("Logon 141=Y is %v, expected %v (counters %d/%d)", our141, wantFlag, s, t)
		}
		if S1 != s+1 || T1 != t {
			return "C07/R2-counters-after-logon-sent", fmt.Sprintf("after sending Logon counters are %d/%d, expected %d/%d", S1, T1, s+1, t)
		}
	case e.K == "connect" && !cfg.Initiator:
		if S1 != S0 || T1 != T0 || M1 != M0 {
			return "C07/R1-connect-changed-counters", fmt.Sprintf("acceptor connect changed %d/%d %q → %d/%d %q", S0, T0, M0, S1, T1, M1)
		}
	case isIn && inType == "A" && st0 == "logon" && !cfg.Initiator:
		reset := cfg.ResetOnLogon || in141 == "Y"
		s, t := S0, T0
		if reset {
			s, t = 1, 1
		}
		if in141 == "Y" && inSeq != 1 {
			break // outside the statement's domain
		}
		if j5 {
			if S1 != 1 || T1 != 1 || M1 != "" {
				return "C07/R3-reset-on-disconnect", fmt.Sprintf("connection ended with ResetOnDisconnect but counters are %d/%d %q", S1, T1, M1)
			}
			break
		}
		switch {
		case inSeq == t || inSeq > t:
			if ourLogon == nil {
				return "C07/R2-no-logon-reply", fmt.Sprintf("acceptor did not answer Logon %d (expected %d)", inSeq, t)
			}
			if ourLogon.Seq() != s {
				return "C07/R2-logon-reply-number", fmt.Sprintf("Logon reply numbered %d, expected %d (reset=%v, before %d/%d)", ourLogon.Seq(), s, reset, S0, T0)
			}
			if our141 != (in141 == "Y") {
				return "C07/R2-reply-does-not-echo-flag", fmt.Sprintf("peer's 141=%q, reply 141=Y is %v", in141, our141)
			}
			wantT := t
			if inSeq == t {
				wantT = t + 1
			}
			if T1 != wantT {
				return "C07/R2-target-after-logon", fmt.Sprintf("expected inbound number %d after Logon %d, got %d", wantT, inSeq, T1)
			}
			wantS := s + 1
			if inSeq > t {
				wantS++ // the ResendRequest
			}
			if S1 != wantS {
				return "C07/R2-sender-after-logon", fmt.Sprintf("next outbound number %d after Logon, expected %d", S1, wantS)
			}
		default: // too low: Logout, T unchanged
			if T1 != t {
				return "C07/R2-target-after-low-logon", fmt.Sprintf("too-low Logon %d changed expected number %d → %d", inSeq, t, T1)
			}
		}
	case isIn && inType == "A" && st0 == "logon" && cfg.Initiator:
		if in141 == "Y" && inSeq != 1 {
			break
		}
		if j5 {
			if S1 != 1 || T1 != 1 || M1 != "" {
				return "C07/R3-reset-on-disconnect", fmt.Sprintf("connection ended with ResetOnDisconnect but counters are %d/%d %q", S1, T1, M1)
			}
			break
		}
		reset := in141 == "Y" && !weSent141Before
		s, t := S0, T0
		if reset {
			s, t = 1, 1
		}
		if inSeq == t {
			t++
		}
		if inSeq > t-0 && inSeq != t-1+0 && inSeq > T0 && !reset {
			s++ // ResendRequest
		}
		if T1 != t {
			return "C07/R2-initiator-target-after-reply", fmt.Sprintf("after Logon reply %d (141=%q, we sent flag=%v) expected inbound number is %d, model says %d", inSeq, in141, weSent141Before, T1, t)
		}
		if reset && S1 != 1 && sn.State == "inSession" {
			return "C07/R2-initiator-sender-after-reset", fmt.Sprintf("peer reset via Logon reply but next outbound number is %d", S1)
		}
		if !reset && resets > 0 && !(j4 || j5) {
			return "C07/R2-double-reset-on-echo", "the echoed ResetSeqNumFlag caused a second reset"
		}
		_ = s
	case isIn && inType == "5" && conn0 && cfg.ResetOnLogout && (loggedOnState(st0) || st0 == "logout"):
		if S1 != 1 || T1 != 1 || M1 != "" {
			return "C07/R3-reset-on-logout", fmt.Sprintf("Logout processed with ResetOnLogout but counters are %d/%d %q", S1, T1, M1)
		}
	case isIn && inType == "4" && (st0 == "inSession" || st0 == "pending{inSession}") && sn.Connected:
		n, okN := w.LastIn.Int(36)
		gf, _ := w.LastIn.Get(123)
		if !okN {
			break
		}
		accepted := gf != "Y" || inSeq == T0
		switch {
		case accepted && n > T0:
			if T1 != n {
				return "C07/R4-seqreset-forward", fmt.Sprintf("SequenceReset(34=%d,123=%q,36=%d) with expected %d left expected at %d", inSeq, gf, n, T0, T1)
			}
		case accepted && n < T0:
			if T1 != T0 {
				return "C07/R4-seqreset-lower-changed-target", fmt.Sprintf("SequenceReset to lower NewSeqNo %d moved expected number %d → %d", n, T0, T1)
			}
			rej := false
			for _, o := range outs {
				if o.Type == "3" {
					if mm, err := fixscan.Scan(o.Raw); err == nil {
						if r, _ := mm.Int(45); r == inSeq {
							rej = true
						}
					}
				}
			}
			if !rej && loggedOnState(sn.State) {
				return "C07/R4-seqreset-lower-not-rejected", fmt.Sprintf("SequenceReset to lower NewSeqNo %d (expected %d) was not answered by a Reject", n, T0)
			}
		default:
			if T1 != T0 && !(gf == "Y" && inSeq > T0) {
				return "C07/R4-seqreset-changed-target", fmt.Sprintf("SequenceReset(34=%d,123=%q,36=%d) with expected %d moved expected to %d", inSeq, gf, n, T0, T1)
			}
		}
	}
	// ResetOnDisconnect: exactly at disconnect
	if j5 {
		if S1 != 1 || T1 != 1 || M1 != "" {
			return "C07/R3-reset-on-disconnect", fmt.Sprintf("connection ended with ResetOnDisconnect but counters are %d/%d %q", S1, T1, M1)
		}
	}
	// no flags, nothing negotiated: a connection end alone changes nothing
	if (e.K == "disconnect" || e.K == "restart") && !anyResetOption(cfg) {
		if S1 != S0 || T1 != T0 || M1 != M0 {
			return "C07/R1-" + e.K + "-changed-state", fmt.Sprintf("%s changed counters/messages %d/%d %q → %d/%d %q", e.K, S0, T0, M0, S1, T1, M1)
		}
	}
	if e.K == "restart" {
		if S1 != S0 || T1 != T0 || M1 != M0 {
			return "C07/R1-restart-changed-state", fmt.Sprintf("reopening the store changed counters/messages %d/%d %q → %d/%d %q", S0, T0, M0, S1, T1, M1)
		}
	}
	return "", ""
}

// sameOrExtends: b keeps every entry of a (entries are "seqType," tokens).
func sameOrExtends(a, b string) bool {
	have := map[string]bool{}
	for _, t := range strings.Split(b, ",") {
		have[t] = true
	}
	for _, t := range strings.Split(a, ",") {
		if t != "" && !have[t] {
			return false
		}
	}
	return true
}

func evClass(e *sessmc.Event, inType string) string {
	if e.K == "in" {
		return "in:" + inType
	}
	if e.K == "to" {
		return e.Name
	}
	return e.K
}

func c07AlphabetFor(cfg sessmc.Config) []*sessmc.Event {
	a := c07Alphabet(cfg.FileDir != "")
	if cfg.ResetSeqTime {
		a = append(a, sessmc.EvResetTime(), sessmc.EvClockTick())
	}
	return a
}

func c07Alphabet(file bool) []*sessmc.Event {
	a := []*sessmc.Event{
		sessmc.EvConnect(), sessmc.EvDisconnect(),
		sessmc.EvLogon(0, 0, ""), sessmc.EvLogon(0, 0, "N"), sessmc.EvLogon(0, 1, "Y"), sessmc.EvLogon(0, 1, ""), sessmc.EvLogon(2, 0, ""),
		sessmc.EvIn("D", 0, false), sessmc.EvIn("5", 0, false), sessmc.EvIn("5", -1, false), sessmc.EvIn("5", 2, false), sessmc.EvStop(), sessmc.EvSend(), sessmc.EvFlush(),
		sessmc.EvSeqResetT(0, -2, "", false), sessmc.EvSeqResetT(0, 3, "", false), sessmc.EvSeqResetT(0, 3, "Y", false),
	}
	// Logons that are not acceptable (refused by the application, foreign CompID, stale SendingTime):
	// they negotiate nothing, whatever flag they carry.
	rej := sessmc.EvIn("A", 0, false, fixscan.Field{58, "REJECT"})
	rej.Name = "in(A@T,app-refuses)"
	rejY := &sessmc.Event{K: "in", Name: "in(A@#1,141=Y,app-refuses)", In: &sessmc.In{Type: "A", Abs: 1, Body: []fixscan.Field{{141, "Y"}, {58, "REJECT"}}}}
	evilY := &sessmc.Event{K: "in", Name: "in(A@#1,141=Y,wrongCompID)", In: &sessmc.In{Type: "A", Abs: 1, Body: []fixscan.Field{{141, "Y"}}, Set: []fixscan.Field{{49, "EVIL"}}}}
	staleY := &sessmc.Event{K: "in", Name: "in(A@#1,141=Y,stale)", In: &sessmc.In{Type: "A", Abs: 1, Body: []fixscan.Field{{141, "Y"}}, TimeSkew: -time.Hour}}
	evil := &sessmc.Event{K: "in", Name: "in(A@T,wrongCompID)", In: &sessmc.In{Type: "A", Set: []fixscan.Field{{49, "EVIL"}}}}
	a = append(a, rej, rejY, evilY, staleY, evil)
	if file {
		a = append(a, sessmc.EvRestart())
	}
	return a
}

// badLogon: the inbound Logon is not acceptable, so it can neither establish a session nor agree a reset.
func badLogon(w *sessmc.World, e *sessmc.Event, st0 string) bool {
	if e.In == nil || w.LastIn == nil {
		return false
	}
	if v, _ := w.LastIn.Get(58); v == "REJECT" {
		return true
	}
	if v, _ := w.LastIn.Get(49); v != sessmc.PeerComp {
		return true
	}
	// SendingTime is not checked while a replay is in progress (see C06)
	return e.In.TimeSkew != 0 && !recovering(st0)
}

func c07SeqResetAlphabet() []*sessmc.Event {
	a := []*sessmc.Event{sessmc.EvIn("D", 0, false)}
	for _, n := range []int{-2, 0, 3} {
		for _, gf := range []string{"Y", "N", ""} {
			for _, rel := range []int{-3, -1, 0, 1} {
				for _, pd := range []bool{false, true} {
					a = append(a, sessmc.EvSeqResetT(rel, n, gf, pd))
				}
			}
		}
	}
	return a
}

func init() {
	register("C07", core.LevelMC, runC07)
	mk := func() []sessmc.Monitor { return []sessmc.Monitor{&c07Mon{}} }
	variantDefs["C07/lifecycle"] = func(cfg sessmc.Config) searchSpec {
		return searchSpec{cfg: cfg, alphabet: c07AlphabetFor(cfg), mons: mk, variant: "C07/lifecycle"}
	}
	variantDefs["C07/seqreset"] = func(cfg sessmc.Config) searchSpec {
		return searchSpec{cfg: cfg, alphabet: c07SeqResetAlphabet(), mons: mk, variant: "C07/seqreset",
			prefix: []*sessmc.Event{sessmc.EvConnect(), sessmc.EvLogon(0, 0, ""), sessmc.EvIn("D", 0, false), sessmc.EvIn("D", 0, false)}}
	}
}

func c07Configs(quick bool) []sessmc.Config {
	type init struct {
		s, t int
		m    []string
	}
	inits := []init{{1, 1, nil}, {3, 1, []string{"A", "D"}}, {1, 4, nil}, {5, 7, []string{"A", "D", "0", "D"}}}
	var out []sessmc.Config
	for _, ini := range []bool{false, true} {
		for _, bs := range []string{"FIX.4.0", "FIX.4.1", "FIX.4.2", "FIX.4.4", "FIXT.1.1"} {
			for flags := 0; flags < 16; flags++ {
				for ii, in := range inits {
					if quick {
						// all 16 flag combinations for FIX.4.2 and both roles with two initial states; a pairwise-style cover elsewhere
						full := bs == "FIX.4.2" && (ii == 0 || ii == 3)
						cover := (flags == 0 || flags == 1 || flags == 2 || flags == 4 || flags == 15) && ii == 3
						if !full && !cover {
							continue
						}
					}
					out = append(out, sessmc.Config{Initiator: ini, BeginString: bs,
						ResetOnLogon: flags&1 != 0, ResetOnLogout: flags&2 != 0, ResetOnDisconnect: flags&4 != 0, RefreshOnLogon: flags&8 != 0,
						InitS: in.s, InitT: in.t, InitMsgs: in.m})
				}
			}
		}
	}
	// ResetSeqTime: the daily reset time passes while connected (FIX.4.1+: the reset flag exists)
	for _, ini := range []bool{false, true} {
		for _, bs := range []string{"FIX.4.2", "FIX.4.4"} {
			if quick && bs != "FIX.4.2" {
				continue
			}
			out = append(out, sessmc.Config{Initiator: ini, BeginString: bs, ResetSeqTime: true, InitS: 5, InitT: 7, InitMsgs: []string{"A", "D", "0", "D"}})
		}
	}
	return out
}

func runC07(c *core.Ctx) {
	depth := 5
	if !c.Quick() {
		depth = 6
		c.SetDeadline(45 * 60e9)
	} else {
		c.SetDeadline(5 * 60e9)
	}
	c.SetRule("BFS over connection/logon/logout/reset event sequences on a real session for each (reset-flag combination, role, BeginString, initial counters); reference counter model compared after every event; file-store variant adds engine restarts; ResetSeqTime configurations add the event that the daily reset time passes between two ticks of the run loop")
	c.Assume("Logon with ResetSeqNumFlag=Y and MsgSeqNum != 1 is outside the statement's domain", "absolute state keys (initial counters are part of the configuration)",
		"Logout timeout without reply is not judged")
	if os.Getenv("C07_STANDBY_ONLY") != "" { // development aid
		c07Standby(c)
		return
	}
	cfgs := c07Configs(c.Quick())
	c.Set("configurations", len(cfgs))
	for _, cfg := range cfgs {
		sp := variantDefs["C07/lifecycle"](cfg)
		sp.depth, sp.conform = depth, 6
		if cfg.ResetSeqTime {
			sp.depth = depth + 1 // a tick while connected, an outage across the reset time, a reconnect and the next tick
		}
		runSearch(c, sp)
		if cfg.InitS == 5 && (!c.Quick() || cfg.BeginString == "FIX.4.2") {
			sp2 := variantDefs["C07/seqreset"](cfg)
			sp2.depth = 2
			runSearch(c, sp2)
		}
		if c.Expired() {
			break
		}
	}
	// the application flags its Logon with ResetSeqNumFlag=Y in ToAdmin (initiator; counters left over from before)
	for _, bs := range []string{"FIX.4.2", "FIX.4.4"} {
		cfg := sessmc.Config{Initiator: true, BeginString: bs, AppResetFlag: true, InitS: 5, InitT: 7, InitMsgs: []string{"A", "D", "0", "D"}}
		sp := variantDefs["C07/lifecycle"](cfg)
		sp.depth = depth - 1
		runSearch(c, sp)
	}
	// file store with restarts
	dir, cleanup := core.Scratch("c07")
	defer cleanup()
	for _, ini := range []bool{false, true} {
		for _, flags := range []int{0, 1, 2, 4, 8} {
			cfg := sessmc.Config{Initiator: ini, BeginString: "FIX.4.2", FileDir: dir,
				ResetOnLogon: flags&1 != 0, ResetOnLogout: flags&2 != 0, ResetOnDisconnect: flags&4 != 0, RefreshOnLogon: flags&8 != 0}
			sp := variantDefs["C07/lifecycle"](cfg)
			sp.depth = depth - 1
			if !c.Quick() {
				sp.depth = depth
			}
			runSearch(c, sp)
		}
	}
	// RefreshOnLogon with another process using the persistent store between two connections
	c07Standby(c)
	runConformance(c)
	c.Set("depth", depth)
}
