package checks

import (
	"encoding/json"
	"fmt"
	"os"
	"runtime"
	"sort"
	"strings"
	"sync"
	"sync/atomic"
	"time"

	"github.com/quickfixgo/quickfix/datadictionary"

	"verif/internal/core"
	"verif/internal/ddwalk"
)

// ---------- C19: loaded dictionaries say what the specification file says ----------

func tagSetKeys(ts datadictionary.TagSet) []int {
	var out []int
	for k := range ts {
		out = append(out, k)
	}
	sort.Ints(out)
	return out
}

func intsEq(a, b []int) bool {
	if len(a) != len(b) {
		return false
	}
	for i := range a {
		if a[i] != b[i] {
			return false
		}
	}
	return true
}

func c19CompareGroup(path string, fd *datadictionary.FieldDef, wm ddwalk.Member) (string, string) {
	if !fd.IsGroup() && len(wm.Group) > 0 {
		return "C19/G-group-not-recorded", fmt.Sprintf("%s: %d is declared as a group with %d members but loaded as a plain field", path, wm.Tag, len(wm.Group))
	}
	var got []int
	for _, f := range fd.Fields {
		got = append(got, f.Tag())
	}
	var want []int
	for _, m := range wm.Group {
		want = append(want, m.Tag)
	}
	if !intsEq(got, want) {
		return "C19/G-member-order", fmt.Sprintf("%s group %d: loaded members %v, declared (components expanded in place) %v", path, wm.Tag, got, want)
	}
	for i, m := range wm.Group {
		if m.IsGroup {
			if r, w := c19CompareGroup(path+"/"+fmt.Sprint(wm.Tag), fd.Fields[i], m); r != "" {
				return r, w
			}
		}
	}
	return "", ""
}

func c19CompareMsg(kind string, md *datadictionary.MessageDef, wm *ddwalk.Msg) (string, string) {
	path := kind + " " + wm.Name
	var top []int
	seen := map[int]bool{}
	for _, m := range wm.Top {
		if !seen[m.Tag] {
			seen[m.Tag] = true
			top = append(top, m.Tag)
		}
	}
	sort.Ints(top)
	var got []int
	for t := range md.Fields {
		got = append(got, t)
	}
	sort.Ints(got)
	if !intsEq(got, top) {
		return "C19/F-top-level-fields", fmt.Sprintf("%s: loaded fields %v, specification reaches %v", path, got, top)
	}
	if g, w := tagSetKeys(md.Tags), ddwalk.SortedKeys(wm.Tags); !intsEq(g, w) {
		return "C19/F-reachable-tags", fmt.Sprintf("%s: loaded Tags %v, specification reaches %v", path, g, w)
	}
	if g, w := tagSetKeys(md.RequiredTags), ddwalk.SortedKeys(wm.Required); !intsEq(g, w) {
		return "C19/R-required-tags", fmt.Sprintf("%s: loaded RequiredTags %v, specification says %v", path, g, w)
	}
	// groups: last declaration of a tag wins in the loader's map; compare every group occurrence whose tag occurs once
	count := map[int]int{}
	for _, m := range wm.Top {
		count[m.Tag]++
	}
	for _, m := range wm.Top {
		if m.IsGroup && count[m.Tag] == 1 {
			if r, w := c19CompareGroup(path, md.Fields[m.Tag], m); r != "" {
				return r, w
			}
		}
	}
	return "", ""
}

// c19Compare checks one document; xmlText is parsed by both sides.
func c19Compare(xmlText string) (rule, what string) {
	var dd *datadictionary.DataDictionary
	var lerr error
	pan := safely(func() { dd, lerr = datadictionary.ParseSrc(strings.NewReader(xmlText)) })
	if pan != "" {
		return "C19/panic", pan
	}
	ws, werr := ddwalk.Parse(strings.NewReader(xmlText))
	if werr != nil {
		if lerr == nil {
			return "C19/D-dangling-reference-accepted", fmt.Sprintf("specification is not resolvable (%v) but was loaded without error", werr)
		}
		return "", ""
	}
	if lerr != nil {
		return "C19/D-valid-spec-refused", fmt.Sprintf("loader error %v on a resolvable specification", lerr)
	}
	byType := map[string]*ddwalk.Msg{}
	for _, m := range ws.Messages {
		byType[m.MsgType] = m
	}
	if len(dd.Messages) != len(byType) {
		return "C19/M-message-count", fmt.Sprintf("%d messages loaded, specification defines %d", len(dd.Messages), len(byType))
	}
	for mt, wm := range byType {
		md := dd.Messages[mt]
		if md == nil {
			return "C19/M-message-missing", "message type " + mt + " not loaded"
		}
		if r, w := c19CompareMsg("message", md, wm); r != "" {
			return r, w
		}
	}
	if ws.Header != nil {
		if dd.Header == nil {
			return "C19/M-header-missing", ""
		}
		if r, w := c19CompareMsg("header", dd.Header, ws.Header); r != "" {
			return r, w
		}
	}
	if ws.Trailer != nil {
		if dd.Trailer == nil {
			return "C19/M-trailer-missing", ""
		}
		if r, w := c19CompareMsg("trailer", dd.Trailer, ws.Trailer); r != "" {
			return r, w
		}
	}
	if len(dd.FieldTypeByTag) != len(ws.FieldsByTag) {
		return "C19/T-field-count", fmt.Sprintf("%d field types loaded, %d declared", len(dd.FieldTypeByTag), len(ws.FieldsByTag))
	}
	for tag, decl := range ws.FieldsByTag {
		ft := dd.FieldTypeByTag[tag]
		if ft == nil {
			return "C19/T-field-missing", fmt.Sprint(tag)
		}
		if ft.Type != decl.Type || ft.Name() != decl.Name || dd.FieldTypeByName[decl.Name] != ft {
			return "C19/T-field-type", fmt.Sprintf("field %d: loaded %s/%s, declared %s/%s", tag, ft.Name(), ft.Type, decl.Name, decl.Type)
		}
		var enums []string
		for k, e := range ft.Enums {
			enums = append(enums, k)
			if e.Value != k {
				return "C19/T-enum-value", fmt.Sprint(tag)
			}
		}
		sort.Strings(enums)
		if strings.Join(enums, "\x00") != strings.Join(decl.Enums, "\x00") {
			return "C19/T-enum-set", fmt.Sprintf("field %d: loaded enums %v, declared %v", tag, enums, decl.Enums)
		}
	}
	return "", ""
}

// ---- generated specifications ----

type genItem struct {
	kind string // f c g
	name string
	req  bool
	sub  []genItem
}

func (g genItem) xml() string {
	r := "N"
	if g.req {
		r = "Y"
	}
	switch g.kind {
	case "f":
		return fmt.Sprintf(`<field name="%s" required="%s"/>`, g.name, r)
	case "c":
		return fmt.Sprintf(`<component name="%s" required="%s"/>`, g.name, r)
	}
	s := fmt.Sprintf(`<group name="%s" required="%s">`, g.name, r)
	for _, x := range g.sub {
		s += x.xml()
	}
	return s + "</group>"
}

func itemsXML(items []genItem) string {
	var sb strings.Builder
	for _, it := range items {
		sb.WriteString(it.xml())
	}
	return sb.String()
}

const genFields = `<fields><field number="8" name="BeginString" type="STRING"/><field number="10" name="CheckSum" type="STRING"/>` +
	`<field number="11" name="A" type="INT"/><field number="12" name="B" type="STRING"><value enum="1" description="ONE"/><value enum="2" description="TWO"/></field>` +
	`<field number="13" name="C" type="CHAR"/><field number="14" name="D" type="PRICE"/><field number="15" name="E" type="STRING"/><field number="16" name="F" type="BOOLEAN"><value enum="Y" description="YES"/><value enum="N" description="NO"/></field>` +
	`<field number="21" name="NoG1" type="NUMINGROUP"/><field number="22" name="NoG2" type="NUMINGROUP"/>` +
	`<field number="31" name="L1" type="STRING"/><field number="32" name="L2" type="INT"/><field number="33" name="L3" type="CHAR"/><field number="34" name="L4" type="STRING"/>` +
	`<field number="35" name="L5" type="STRING"/><field number="36" name="L6" type="INT"/><field number="37" name="L7" type="STRING"/><field number="38" name="L8" type="STRING"/></fields>`

func genDoc(msgs [][]genItem, comps map[string][]genItem, header, trailer []genItem) string {
	var sb strings.Builder
	sb.WriteString(`<fix type="FIX" major="4" minor="4">`)
	sb.WriteString("<header>" + itemsXML(header) + "</header><trailer>" + itemsXML(trailer) + "</trailer><messages>")
	for i, m := range msgs {
		fmt.Fprintf(&sb, `<message name="M%d" msgtype="M%d" msgcat="app">%s</message>`, i, i, itemsXML(m))
	}
	sb.WriteString("</messages><components>")
	names := []string{}
	for n := range comps {
		names = append(names, n)
	}
	sort.Strings(names)
	for _, n := range names {
		fmt.Fprintf(&sb, `<component name="%s">%s</component>`, n, itemsXML(comps[n]))
	}
	sb.WriteString("</components>" + genFields + "</fix>")
	return sb.String()
}

// c19Generate yields generated documents: three structural templates with every required-flag combination, member
// permutations, duplicate declarations, and every placement of one dangling reference.
func c19Generate(quick bool, emit func(doc string)) {
	b := func(mask, bit int) bool { return mask&(1<<bit) != 0 }
	hdr := []genItem{{kind: "f", name: "BeginString", req: true}}
	trl := []genItem{{kind: "f", name: "CheckSum", req: true}}
	// T1: component chain with a group inside the innermost but one
	for m := 0; m < 1<<10; m++ {
		comps := map[string][]genItem{
			"C1": {{kind: "c", name: "C2", req: b(m, 1)}, {kind: "f", name: "A", req: b(m, 2)}},
			"C2": {{kind: "f", name: "B", req: b(m, 3)}, {kind: "g", name: "NoG1", req: b(m, 4), sub: []genItem{{kind: "f", name: "C", req: b(m, 5)}, {kind: "c", name: "C3", req: b(m, 6)}}}},
			"C3": {{kind: "f", name: "D", req: b(m, 7)}, {kind: "g", name: "NoG2", req: b(m, 8), sub: []genItem{{kind: "f", name: "E", req: b(m, 9)}}}},
		}
		emit(genDoc([][]genItem{{{kind: "c", name: "C1", req: b(m, 0)}}}, comps, hdr, trl))
	}
	// T2: message with field, group (component + field + nested group), component chain; all member permutations
	perms := [][3]int{{0, 1, 2}, {0, 2, 1}, {1, 0, 2}, {1, 2, 0}, {2, 0, 1}, {2, 1, 0}}
	for m := 0; m < 1<<11; m++ {
		comps := map[string][]genItem{
			"C1": {{kind: "f", name: "D", req: b(m, 7)}, {kind: "f", name: "E", req: b(m, 8)}},
			"C2": {{kind: "c", name: "C3", req: b(m, 9)}},
			"C3": {{kind: "f", name: "F", req: b(m, 10)}},
		}
		base := []genItem{{kind: "f", name: "A", req: b(m, 0)},
			{kind: "g", name: "NoG1", req: b(m, 1), sub: []genItem{{kind: "c", name: "C1", req: b(m, 2)}, {kind: "f", name: "B", req: b(m, 3)}, {kind: "g", name: "NoG2", req: b(m, 4), sub: []genItem{{kind: "f", name: "C", req: b(m, 5)}}}}},
			{kind: "c", name: "C2", req: b(m, 6)}}
		for pi, p := range perms {
			if quick && pi != m%6 {
				continue
			}
			emit(genDoc([][]genItem{{base[p[0]], base[p[1]], base[p[2]]}, {{kind: "f", name: "A", req: true}}}, comps, hdr, trl))
		}
	}
	// T3: the same field reachable twice (through a component and directly; plain and as a group), header/trailer with components
	for m := 0; m < 1<<6; m++ {
		comps := map[string][]genItem{"C1": {{kind: "f", name: "A", req: b(m, 2)}, {kind: "f", name: "B", req: b(m, 3)}}}
		first := genItem{kind: "c", name: "C1", req: b(m, 0)}
		second := genItem{kind: "f", name: "A", req: b(m, 1)}
		msg := []genItem{first, second}
		if b(m, 4) {
			msg = []genItem{second, first}
		}
		h := append([]genItem{}, hdr...)
		if b(m, 5) {
			h = append(h, genItem{kind: "c", name: "C1", req: b(m, 0)}, genItem{kind: "f", name: "A", req: true})
		}
		emit(genDoc([][]genItem{msg}, comps, h, trl))
	}
	// T6: a chain of three components below a message, below a group, in the header and in the trailer: every
	// combination of required flags along the chain and on the field at its end
	for m := 0; m < 1<<7; m++ {
		comps := map[string][]genItem{
			"C1": {{kind: "f", name: "A", req: b(m, 4)}, {kind: "c", name: "C2", req: b(m, 1)}},
			"C2": {{kind: "c", name: "C3", req: b(m, 2)}, {kind: "f", name: "B", req: b(m, 5)}},
			"C3": {{kind: "f", name: "D", req: b(m, 3)}, {kind: "f", name: "E", req: b(m, 6)}},
		}
		chain := genItem{kind: "c", name: "C1", req: b(m, 0)}
		msgs := [][]genItem{{chain}, {{kind: "g", name: "NoG1", req: b(m, 0), sub: []genItem{{kind: "f", name: "C", req: true}, chain}}}}
		emit(genDoc(msgs, comps, hdr, trl))
		emit(genDoc([][]genItem{{{kind: "f", name: "F", req: true}}}, comps, append(append([]genItem{}, hdr...), chain), append([]genItem{chain}, trl...)))
	}
	// T5: sibling components (and groups) that begin with the same nested component of 1..8 fields and each
	// declare something of their own behind it (a loader that shares the nested component's field list between
	// its users shows up here, for the list lengths that leave spare capacity)
	for n := 1; n <= 8; n++ {
		var inner []genItem
		for k := 1; k <= n; k++ {
			inner = append(inner, genItem{kind: "f", name: fmt.Sprintf("L%d", k), req: k%2 == 1})
		}
		for m := 0; m < 1<<4; m++ {
			comps := map[string][]genItem{
				"CL": inner,
				"P1": {{kind: "c", name: "CL", req: b(m, 0)}, {kind: "f", name: "A", req: b(m, 1)}},
				"P2": {{kind: "c", name: "CL", req: b(m, 2)}, {kind: "f", name: "B", req: b(m, 3)}},
				"P3": {{kind: "c", name: "CL", req: true}, {kind: "g", name: "NoG2", req: b(m, 1), sub: []genItem{{kind: "f", name: "E", req: true}}}},
			}
			msgs := [][]genItem{
				{{kind: "c", name: "P1", req: true}},
				{{kind: "c", name: "P2", req: b(m, 0)}},
				{{kind: "c", name: "P3", req: true}, {kind: "f", name: "D", req: false}},
				{{kind: "g", name: "NoG1", req: true, sub: []genItem{{kind: "c", name: "CL", req: b(m, 2)}, {kind: "f", name: "C", req: b(m, 3)}}}},
				{{kind: "c", name: "CL", req: b(m, 1)}, {kind: "f", name: "F", req: true}},
			}
			emit(genDoc(msgs, comps, hdr, trl))
		}
	}
	// T4: one dangling reference at every position of a structure that uses every construct
	ref := func(kind, name string) genItem { return genItem{kind: kind, name: name, req: true} }
	for pos := 0; pos < 9; pos++ {
		for _, kind := range []string{"f", "c", "g"} {
			bad := func(p int, ok genItem) genItem {
				if p != pos {
					return ok
				}
				switch kind {
				case "f":
					return ref("f", "Undefined")
				case "c":
					return ref("c", "CX")
				}
				return genItem{kind: "g", name: "NoUndefined", req: true, sub: []genItem{ref("f", "A")}}
			}
			comps := map[string][]genItem{
				"C1": {bad(3, ref("f", "D")), bad(4, ref("c", "C2"))},
				"C2": {bad(5, ref("f", "E"))},
			}
			msg := []genItem{bad(0, ref("f", "A")), {kind: "g", name: "NoG1", req: true, sub: []genItem{bad(1, ref("f", "B")), bad(2, ref("c", "C1"))}}}
			msg2 := []genItem{ref("f", "A")}
			h := []genItem{ref("f", "BeginString"), bad(6, ref("f", "C"))}
			t := []genItem{bad(7, ref("f", "CheckSum"))}
			msgs := [][]genItem{msg, msg2}
			if pos == 8 {
				msgs = [][]genItem{{ref("f", "A")}, {bad(8, ref("f", "B"))}, {ref("f", "C")}}
			}
			emit(genDoc(msgs, comps, h, t))
			if pos == 0 {
				// the dangling reference sits in a component that is declared but used by nothing
				// (alone, and nested in a group of that component)
				for _, inGroup := range []bool{false, true} {
					cu := []genItem{ref("f", "F"), bad(0, ref("f", "E"))}
					if inGroup {
						cu = []genItem{ref("f", "F"), {kind: "g", name: "NoG2", req: false, sub: []genItem{ref("f", "E"), bad(0, ref("f", "D"))}}}
					}
					comps2 := map[string][]genItem{"C1": {ref("f", "D"), ref("c", "C2")}, "C2": {ref("f", "E")}, "CU": cu}
					emit(genDoc([][]genItem{{ref("f", "A"), ref("c", "C1")}}, comps2, []genItem{ref("f", "BeginString")}, []genItem{ref("f", "CheckSum")}))
				}
			}
		}
	}
}

type c19Case struct {
	File string `json:"file,omitempty"`
	Doc  string `json:"doc,omitempty"`
}

func init() {
	register("C19", core.LevelExploration, runC19)
	core.RegisterReplay("C19/case", func(data json.RawMessage) (bool, string, error) {
		var cs c19Case
		if err := json.Unmarshal(data, &cs); err != nil {
			return false, "", err
		}
		doc := cs.Doc
		if cs.File != "" {
			b, err := os.ReadFile(cs.File)
			if err != nil {
				return false, "", err
			}
			doc = string(b)
		}
		r, w := c19Compare(doc)
		return r != "", r + ": " + w, nil
	})
}

func runC19(c *core.Ctx) {
	quick := c.Quick()
	if quick {
		c.SetDeadline(4 * time.Minute)
	} else {
		c.SetDeadline(30 * time.Minute)
	}
	c.SetRule("all nine shipped specifications in full (every message, header, trailer, group at every depth, field type and enumeration) plus generated specifications: three structural templates (component chains, a chain of three components below a message / a group / in header and trailer, groups in components, components in groups, nested groups) with every combination of required flags and member permutations, duplicate declarations, sibling components and groups sharing a leading nested component of 1-8 fields, and every placement of one dangling field/component/group reference (also inside a component nothing uses); oracle = independent XML walk")
	c.Assume("when a tag is declared twice at the top level of one message only the set-valued facts (reachable tags, required tags) are compared")
	var evals int64
	for _, n := range c09DictNames {
		path := specDir + n + ".xml"
		b, err := os.ReadFile(path)
		if err != nil {
			c.EngineError(err.Error())
			continue
		}
		ws, _ := ddwalk.Parse(strings.NewReader(string(b)))
		if r, w := c19Compare(string(b)); r != "" {
			c.Violation(r+" spec="+n, w, "C19/case", c19Case{File: path})
		}
		evals++
		if ws != nil {
			groups := 0
			var cnt func(ms []ddwalk.Member)
			cnt = func(ms []ddwalk.Member) {
				for _, m := range ms {
					if m.IsGroup {
						groups++
						cnt(m.Group)
					}
				}
			}
			for _, m := range ws.Messages {
				cnt(m.Top)
			}
			c.Sample(map[string]any{"spec": n, "messages": len(ws.Messages), "fields": len(ws.FieldsByTag), "groups_compared": groups})
			c.AddCounter("shipped_messages_compared", int64(len(ws.Messages)))
			c.AddCounter("shipped_groups_compared", int64(groups))
		}
	}
	docs := make(chan string, 1024)
	var wg sync.WaitGroup
	for wk := 0; wk < runtime.NumCPU(); wk++ {
		wg.Add(1)
		go func() {
			defer wg.Done()
			for d := range docs {
				r, w := c19Compare(d)
				atomic.AddInt64(&evals, 1)
				if r != "" {
					c.Violation(r, w, "C19/case", c19Case{Doc: d})
				}
			}
		}()
	}
	first := true
	c19Generate(quick, func(doc string) {
		if first {
			first = false
			c.Sample(map[string]string{"generated": doc[:400] + "..."})
		}
		docs <- doc
	})
	close(docs)
	wg.Wait()
	c.AddEval(evals)
	c.DistinctN(evals)
}
