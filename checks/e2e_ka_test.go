//go:build conform

package checks

import (
	"encoding/json"
	"fmt"
	"os"
	"runtime"
	"sync"
	"sync/atomic"
	"testing"
	"testing/synctest"
	"time"

	"verif/internal/core"
	"verif/internal/e2e"
)

// kaRun: one script on a fresh pair of real engines inside a bubble.
func kaRun(t *testing.T, cs kaCase, tag string) (rule, what string, trace []string, frames int, outcome string, err error) {
	scratch, cleanup := core.Scratch("ka")
	defer cleanup()
	dir := ""
	for i := 0; i < len(cs.Script); i++ {
		if cs.Script[i] == 'R' {
			dir = scratch
		}
	}
	defer func() {
		if r := recover(); r != nil {
			atomic.StoreInt32(&e2eHung, 1)
			rule, what = "C20/E-engine-goroutine-blocked-for-ever", fmt.Sprint(r)
		}
	}()
	synctest.Test(t, func(t *testing.T) {
		s, e := e2e.NewHB(e2e.Ctl{Barrier: synctest.Wait, Sleep: time.Sleep}, "FIX.4.2", dir, tag, cs.Cfg.HB, cs.Cfg.AccHB)
		if e != nil {
			err = e
			return
		}
		defer func() {
			if os.Getenv("E2E_DEBUG") != "" {
				fmt.Fprintf(os.Stderr, "TRACE %v\nEVENTS %+v\nCLOSES %+v\n", s.Trace, s.Net.Events, s.Net.Closes)
			}
			s.Close()
			if os.Getenv("E2E_DEBUG") != "" {
				buf := make([]byte, 1<<20)
				fmt.Fprintf(os.Stderr, "SCRIPT %s GOROUTINES AFTER CLOSE:\n%s\n", cs.Script, buf[:runtime.Stack(buf, true)])
			}
		}()
		if !s.Connect() || !s.Quiesce(50) || !s.LoggedOn() {
			err = fmt.Errorf("the pair did not log on: %v", s.Trace)
			return
		}
		div := cs.Cfg.TickDiv
		if div == 0 {
			div = 4
		}
		tick := time.Duration(cs.Cfg.HB) * time.Second / time.Duration(div)
		if cs.Cfg.HB2 > 0 && cs.Cfg.HB2 < cs.Cfg.HB {
			tick = time.Duration(cs.Cfg.HB2) * time.Second / time.Duration(div)
		}
		if cs.Cfg.AccHB > 0 && cs.Cfg.AccHB < cs.Cfg.HB {
			tick = time.Duration(cs.Cfg.AccHB) * time.Second / time.Duration(div)
		}
		hb2 := cs.Cfg.HB2
		for i := 0; i < len(cs.Script); i++ {
			a := cs.Script[i]
			s.Net.Hold(true, a == 'a' || a == 'b')
			s.Net.Hold(false, a == 'i' || a == 'b')
			switch a {
			case 'S':
				s.AppA.SetBusy(tick * time.Duration(div) * 3 / 8)
				s.Send(true)
			case 's':
				s.AppI.SetBusy(tick * time.Duration(div) * 3 / 8)
				s.Send(false)
			case 'R':
				prev := s.HB
				if e := s.RestartInitiatorHB(hb2); e != nil {
					err = e
					return
				}
				hb2 = prev
				s.Connect()
			}
			s.Flow(400)
			time.Sleep(tick)
			synctest.Wait()
		}
		s.Net.Hold(true, false)
		s.Net.Hold(false, false)
		s.Flow(400)
		end := s.Net.Now()
		rule, what = s.JudgeKeepAlive(end)
		trace = s.Trace
		frames = len(s.Net.Events)
		outcome = fmt.Sprint(s.KeepAliveOutcome())
	})
	return
}

func TestE2EKeepAlive(t *testing.T) {
	in, outPath := os.Getenv("KA_IN"), os.Getenv("KA_OUT")
	if in == "" {
		t.Skip("KA_IN not set")
	}
	b, err := os.ReadFile(in)
	if err != nil {
		t.Fatal(err)
	}
	var req struct {
		Configs []kaConfig `json:"configs"`
		One     *kaCase    `json:"one"`
	}
	if err := json.Unmarshal(b, &req); err != nil {
		t.Fatal(err)
	}
	var cases []kaCase
	if req.One != nil {
		cases = []kaCase{*req.One}
	}
	for _, cfg := range req.Configs {
		var rec func(s string)
		rec = func(s string) {
			if len(s) > 0 {
				cases = append(cases, kaCase{cfg, s})
			}
			if len(s) == cfg.Depth {
				return
			}
			for i := 0; i < len(cfg.Alphabet); i++ {
				rec(s + string(cfg.Alphabet[i]))
			}
		}
		rec("")
	}
	var deadline time.Time
	if d, err := time.ParseDuration(os.Getenv("E2E_BUDGET")); err == nil && d > 0 {
		deadline = time.Now().Add(d)
	}
	var res kaOut
	outcomes := map[string]bool{}
	var mu sync.Mutex
	var idx int64 = -1
	var wg sync.WaitGroup
	nw := runtime.NumCPU()
	cur := make([]int64, nw)
	since := make([]int64, nw)
	for i := range cur {
		cur[i] = -1
	}
	// hang watchdog (real time, outside the bubbles), as in TestE2EReplay
	go func() {
		for {
			time.Sleep(time.Second)
			for w := 0; w < nw; w++ {
				i, t0 := atomic.LoadInt64(&cur[w]), atomic.LoadInt64(&since[w])
				if i >= 0 && t0 > 0 && time.Since(time.Unix(0, t0)) > 30*time.Second {
					mu.Lock()
					res.Violations = append(res.Violations, kaViolation{cases[i], "C20/E-engine-hung", "the real pair made no further progress on this script (the run did not finish within 30 s of real time; virtual time is free): an engine goroutine is blocked for ever", nil})
					res.NotRun += len(cases) - res.Runs - res.NotRun - 1
					ob, _ := json.Marshal(res)
					if outPath != "" {
						os.WriteFile(outPath, ob, 0o644)
					}
					os.Exit(0)
				}
			}
		}
	}()
	for wk := 0; wk < nw; wk++ {
		wg.Add(1)
		wk := wk
		go func() {
			defer wg.Done()
			for {
				i := int(atomic.AddInt64(&idx, 1))
				if i >= len(cases) {
					return
				}
				mu.Lock()
				stop := len(res.Violations) >= 25 || (!deadline.IsZero() && time.Now().After(deadline)) || atomic.LoadInt32(&e2eHung) != 0
				if stop {
					res.NotRun++
				}
				mu.Unlock()
				if stop {
					continue
				}
				atomic.StoreInt64(&since[wk], time.Now().UnixNano())
				atomic.StoreInt64(&cur[wk], int64(i))
				rule, what, trace, frames, outcome, err := kaRun(t, cases[i], fmt.Sprintf("k%d.%d", os.Getpid(), i))
				atomic.StoreInt64(&cur[wk], -1)
				mu.Lock()
				res.Runs++
				res.Frames += frames
				outcomes[outcome] = true
				switch {
				case err != nil:
					if len(res.Errors) < 10 {
						res.Errors = append(res.Errors, err.Error())
					}
				case rule != "":
					res.Violations = append(res.Violations, kaViolation{cases[i], rule, what, trace})
				}
				mu.Unlock()
			}
		}()
	}
	wg.Wait()
	res.Outcomes = len(outcomes)
	ob, _ := json.Marshal(res)
	if outPath != "" {
		os.WriteFile(outPath, ob, 0o644)
	}
	t.Logf("keep-alive: runs=%d violations=%d errors=%d outcomes=%d", res.Runs, len(res.Violations), len(res.Errors), res.Outcomes)
}
