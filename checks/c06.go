package checks

import (
	"encoding/json"
	"fmt"
	"os"
	"path/filepath"
	"regexp"
	"runtime"
	"strconv"
	"strings"
	"sync"
	"sync/atomic"
	"time"

	"github.com/quickfixgo/quickfix"

	"verif/internal/core"
	"verif/internal/ddwalk"
	"verif/internal/fixscan"
	"verif/internal/sessmc"
)

// ---------- C06: session-level gate (input product x logged-on states x configurations) ----------

// axis values
var (
	c06BS     = []string{"ok", "other"}
	c06Comp   = []string{"ok", "wrong", "empty", "missing"}
	c06Time   = []string{"now", "-1h", "+1h", "garbled", "empty", "missing", "-30s"} // -30s: only under MaxLatency=5 (stale there, fresh by default)
	c06Seq    = []string{"T", "T-1", "T+1", "missing", "empty", "garbled"}
	c06PD     = []string{"absent", "Y", "N", "garbled"}
	c06Orig   = []string{"absent", "earlier", "later", "garbled", "same"} // same: OrigSendingTime = SendingTime (replayed within the tick; only with 43=Y)
	c06Types  = []string{"D", "0", "1", "2", "3", "4g", "4r", "5", "A", "ZZ"}
	c06States = []string{"normal", "recovering", "pending", "pending+recovering", "logout"}
	// message-validation defects that need no dictionary (validator settings ValidateFieldsHaveValues /
	// ValidateFieldsOutOfOrder, both default Y)
	c06Val = []string{"none", "empty-body-field", "empty-header-field", "header-field-after-body", "missing-required-field", "unknown-msgtype", "undefined-tag-4999", "undefined-tag-5000", "undefined-tag-5001"}
)

func c06HaveValues(cfg sessmc.Config) bool { return cfg.Extra["ValidateFieldsHaveValues"] != "N" }
func c06InOrder(cfg sessmc.Config) bool    { return cfg.Extra["ValidateFieldsOutOfOrder"] != "N" }

// c06TrimmedSpec: the session loads its dictionary from the file on every construction (35 ms for the full FIX44);
// the cases only exchange administrative messages, NewOrderSingle, News, ExecutionReport and BusinessMessageReject, so the
// sessions are given a copy that keeps exactly those definitions (verbatim) with header, trailer and what they reference.
var (
	c06TrimMu  sync.Mutex
	c06Trimmed = map[string]string{}
)

func c06TrimmedSpec(path string) string {
	c06TrimMu.Lock()
	defer c06TrimMu.Unlock()
	if p, ok := c06Trimmed[path]; ok {
		return p
	}
	out := path
	if f, err := os.Open(path); err == nil {
		defer f.Close()
		keep := map[string]bool{}
		for _, t := range []string{"0", "1", "2", "3", "4", "5", "A", "B", "D", "8", "j"} {
			keep[t] = true
		}
		if b, err := ddwalk.Trim(f, keep); err == nil {
			dir, cleanup := core.Scratch("c06spec") // lives as long as the process
			core.AtExit(cleanup)
			out = filepath.Join(dir, filepath.Base(path))
			if os.WriteFile(out, b, 0o644) != nil {
				out = path
			}
		}
	}
	c06Trimmed[path] = out
	return out
}

type c06Case struct {
	Cfg                                         sessmc.Config
	State                                       int
	BS, Sender, Target, Time, Seq, PD, Orig, Ty int
	Routing                                     bool
	Val                                         int
}

func (c c06Case) String() string {
	return fmt.Sprintf("%s state=%s type=%s 8=%s 49=%s 56=%s 52=%s 34=%s 43=%s 122=%s", c.Cfg, c06States[c.State], c06Types[c.Ty],
		c06BS[c.BS], c06Comp[c.Sender], c06Comp[c.Target], c06Time[c.Time], c06Seq[c.Seq], c06PD[c.PD], c06Orig[c.Orig]) + map[bool]string{true: " validation-defect=" + c06Val[c.Val]}[c.Val != 0]
}

func c06Prefix(state int) []*sessmc.Event {
	p := []*sessmc.Event{sessmc.EvConnect(), sessmc.EvLogon(0, 0, "")}
	switch c06States[state] {
	case "recovering":
		p = append(p, sessmc.EvIn("D", 2, false, fullOrderBody...))
	case "pending":
		p = append(p, sessmc.EvTimeout(quickfix.VerifPeerTimeout))
	case "pending+recovering":
		p = append(p, sessmc.EvIn("D", 2, false, fullOrderBody...), sessmc.EvTimeout(quickfix.VerifPeerTimeout))
	case "logout":
		p = append(p, sessmc.EvStop())
	}
	return p
}

var fullOrderBody = []fixscan.Field{{11, "ID"}, {21, "1"}, {55, "IBM"}, {54, "1"}, {60, "20240101-00:00:00"}, {38, "100"}, {40, "1"}}

// c06Build materialises the message of a case.
func c06Build(w *sessmc.World, c c06Case) (*sessmc.In, time.Time) {
	in := &sessmc.In{}
	ty := c06Types[c.Ty]
	now := time.Now()
	switch ty {
	case "D":
		in.Type = "D"
		in.Body = append([]fixscan.Field{}, fullOrderBody...)
	case "0":
		in.Type = "0"
	case "1":
		in.Type, in.Body = "1", []fixscan.Field{{112, "PING"}}
	case "2":
		in.Type, in.Body = "2", []fixscan.Field{{7, "1"}, {16, "0"}}
	case "3":
		in.Type, in.Body = "3", []fixscan.Field{{45, "1"}}
	case "4g":
		in.Type, in.Body, in.NewRel = "4", []fixscan.Field{{123, "Y"}}, sessmc.IP(1)
	case "4r":
		in.Type, in.NewRelT = "4", sessmc.IP(2)
	case "5":
		in.Type = "5"
	case "A":
		in.Type = "A"
	case "ZZ":
		in.Type = "ZZ"
		if c.Cfg.DataDictionary != "" {
			in.Type = "B" // News: defined in every FIX4x dictionary, never handled specially
			in.Body = []fixscan.Field{{148, "headline"}, {33, "1"}, {58, "text"}}
		}
	}
	switch c06Seq[c.Seq] {
	case "T-1":
		in.Rel = -1
	case "T+1":
		in.Rel = 1
	case "missing":
		in.Del = append(in.Del, 34)
	case "empty":
		in.Set = append(in.Set, fixscan.Field{34, ""})
	case "garbled":
		in.Set = append(in.Set, fixscan.Field{34, "1x"})
	}
	if c06BS[c.BS] == "other" {
		other := "FIX.4.3"
		if c.Cfg.BeginString == "FIX.4.3" {
			other = "FIX.4.2"
		}
		in.Set = append(in.Set, fixscan.Field{8, other})
	}
	comp := func(tag int, v int) {
		switch c06Comp[v] {
		case "wrong":
			// a foreign identity, or the right one in the wrong letter case (CompIDs are compared exactly)
			wrong := "EVIL"
			if (c.State+c.Ty+c.Time+c.Seq)%2 == 0 {
				wrong = strings.ToLower(sessmc.PeerComp)
				if tag == 56 {
					wrong = strings.ToLower(sessmc.OurComp)
				}
			}
			in.Set = append(in.Set, fixscan.Field{tag, wrong})
		case "empty":
			in.Set = append(in.Set, fixscan.Field{tag, ""})
		case "missing":
			in.Del = append(in.Del, tag)
		}
	}
	comp(49, c.Sender)
	comp(56, c.Target)
	switch c06Time[c.Time] {
	case "-1h":
		in.TimeSkew = -time.Hour
	case "+1h":
		in.TimeSkew = time.Hour
	case "-30s":
		in.TimeSkew = -30 * time.Second
	case "garbled":
		in.Set = append(in.Set, fixscan.Field{52, "2024-01-01"})
	case "empty":
		in.Set = append(in.Set, fixscan.Field{52, ""})
	case "missing":
		in.Del = append(in.Del, 52)
	}
	switch c06PD[c.PD] {
	case "Y":
		in.Set = append(in.Set, fixscan.Field{43, "Y"})
	case "N":
		in.Set = append(in.Set, fixscan.Field{43, "N"})
	case "garbled":
		in.Set = append(in.Set, fixscan.Field{43, "Q"})
	}
	sending := now.Add(in.TimeSkew)
	switch c06Orig[c.Orig] {
	case "earlier":
		in.Set = append(in.Set, fixscan.Field{122, fixscan.Stamp(sending.Add(-time.Minute))})
	case "later":
		in.Set = append(in.Set, fixscan.Field{122, fixscan.Stamp(sending.Add(time.Minute))})
	case "garbled":
		in.Set = append(in.Set, fixscan.Field{122, "yesterday"})
	case "same":
		in.OrigSame = true // stamped by the same clock reading as SendingTime
	}
	if c.Routing {
		in.Set = append(in.Set, fixscan.Field{50, "PSUB"}, fixscan.Field{142, "PLOC"})
		if c06Val[c.Val] != "empty-header-field" {
			in.Set = append(in.Set, fixscan.Field{115, "OBO"})
		}
	}
	switch c06Val[c.Val] {
	case "empty-body-field":
		in.Body = append(in.Body, fixscan.Field{58, ""})
	case "empty-header-field":
		in.Set = append(in.Set, fixscan.Field{115, ""})
	case "missing-required-field":
		in.Del = append(in.Del, 11)
	case "unknown-msgtype":
		in.Type, in.Body = "ZZ", nil
	case "undefined-tag-4999":
		in.Body = append(in.Body, fixscan.Field{4999, "X"})
	case "undefined-tag-5000":
		in.Body = append(in.Body, fixscan.Field{5000, "X"})
	case "undefined-tag-5001":
		in.Body = append(in.Body, fixscan.Field{5001, "X"})
	case "header-field-after-body":
		// a body field first (types without a body would otherwise keep the tag inside the header), then the header tag
		in.Body = append(in.Body, fixscan.Field{58, "text"}, fixscan.Field{129, "LATE"})
	}
	return in, now
}

type c06Outcome struct {
	class  string // silent logout rej+logout rej resend other
	reason int    // 373 (-1 when absent)
	refTag int    // 371 / parsed from text (-1 when absent)
	types  []string
}

var textTagRe = regexp.MustCompile(`\((\d+)\)\s*$`)

func c06Classify(outs []sessmc.Obs) (c06Outcome, []*fixscan.Msg) {
	o := c06Outcome{reason: -1, refTag: -1}
	var rejects []*fixscan.Msg
	for _, x := range outs {
		if x.PossDup {
			continue
		}
		o.types = append(o.types, x.Type)
		if x.Type == "3" {
			m, err := fixscan.Scan(x.Raw)
			if err == nil {
				rejects = append(rejects, m)
				if v, ok := m.Int(373); ok {
					o.reason = v
				}
				if v, ok := m.Int(371); ok {
					o.refTag = v
				} else if t, ok := m.Get(58); ok {
					if mm := textTagRe.FindStringSubmatch(t); mm != nil {
						o.refTag, _ = strconv.Atoi(mm[1])
					}
				}
			}
		}
	}
	switch strings.Join(o.types, ",") {
	case "":
		o.class = "silent"
	case "5":
		o.class = "logout"
	case "3,5":
		o.class = "rej+logout"
	case "3":
		o.class = "rej"
	case "2":
		o.class = "resend"
	default:
		o.class = "other"
	}
	return o, rejects
}

type c06Allowed struct {
	class  string
	reason int // for rej+logout
	tag    int // for rej
}

func (a c06Allowed) String() string {
	switch a.class {
	case "rej+logout":
		return fmt.Sprintf("Reject(%d)+Logout", a.reason)
	case "rej":
		return fmt.Sprintf("Reject naming %d", a.tag)
	}
	return a.class
}

func seqChecked(ty string) bool {
	switch ty {
	case "D", "0", "1", "3", "4g", "ZZ":
		return true
	}
	return false
}

// c06Expected computes the set of mandated reactions for the defects present (empty = no defect).
// mandatory counts the defects whose reaction the statement mandates; reactions that are merely
// permitted (SendingTime checks while a replay is in progress) are added to allowed without counting.
func c06Expected(c c06Case) (allowed []c06Allowed, gateClosed bool, mandatory int) {
	defer func() { mandatory += len(allowed) - optional(c, allowed) }()
	return c06ExpectedInner(c)
}

func optional(c c06Case, allowed []c06Allowed) int {
	n := optionalTime(c) + optionalDict(c)
	if v := c06Val[c.Val]; (v == "missing-required-field" || v == "unknown-msgtype" || strings.HasPrefix(v, "undefined-tag")) && c06ValDefect(c) != 0 {
		n++ // only the gate is judged for these (the kind of reject is C15's subject)
	}
	return n
}

// optionalDict: reactions to a missing / ill-typed SendingTime that only the dictionary checks produce are
// permitted, not counted as mandated (other dictionary checks may speak first)
func optionalDict(c c06Case) int {
	if c.Cfg.DataDictionary == "" {
		return 0
	}
	switch c06Time[c.Time] {
	case "missing":
		return 1
	case "garbled":
		if c.Cfg.Extra["RejectInvalidMessage"] != "N" {
			return 1
		}
	}
	return 0
}

func optionalTime(c c06Case) int {
	state := c06States[c.State]
	if !strings.Contains(state, "recovering") || c.Cfg.NoCheckLatency {
		return 0
	}
	switch c06Time[c.Time] {
	case "-1h", "+1h", "-30s", "garbled", "missing":
		return 1
	case "empty":
		if !c06HaveValues(c.Cfg) {
			return 1
		}
	}
	return 0
}

// c06ValDefect: the tag message validation must name for the validation defect of the case under the
// session's validator settings (0: the defect is absent or the setting switches the check off).
func c06ValDefect(c c06Case) int {
	switch c06Val[c.Val] {
	case "empty-body-field":
		if c06HaveValues(c.Cfg) {
			return 58
		}
	case "empty-header-field":
		if c06HaveValues(c.Cfg) {
			return 115
		}
	case "header-field-after-body":
		if c06InOrder(c.Cfg) {
			return 129
		}
	case "missing-required-field": // NewOrderSingle without ClOrdID: refused whenever a dictionary is configured
		if c.Cfg.DataDictionary != "" {
			return 11
		}
	case "unknown-msgtype":
		if c.Cfg.DataDictionary != "" {
			return 35
		}
	case "undefined-tag-4999": // below the user-defined range: refused unless unknown fields are allowed
		if c.Cfg.DataDictionary != "" && c.Cfg.Extra["RejectInvalidMessage"] != "N" && c.Cfg.Extra["AllowUnknownMsgFields"] != "Y" {
			return 4999
		}
	case "undefined-tag-5000", "undefined-tag-5001": // user-defined range (from 5000): refused unless their validation is off
		if c.Cfg.DataDictionary != "" && c.Cfg.Extra["RejectInvalidMessage"] != "N" && c.Cfg.Extra["ValidateUserDefinedFields"] != "N" {
			if c06Val[c.Val] == "undefined-tag-5000" {
				return 5000
			}
			return 5001
		}
	}
	return 0
}

func c06ExpectedInner(c c06Case) (allowed []c06Allowed, gateClosed bool, mandatory int) {
	ty := c06Types[c.Ty]
	state := c06States[c.State]
	recovering := strings.Contains(state, "recovering")
	latency := !c.Cfg.NoCheckLatency && !recovering
	if c06BS[c.BS] == "other" {
		allowed = append(allowed, c06Allowed{class: "logout"})
		gateClosed = true
	}
	s, t := c06Comp[c.Sender], c06Comp[c.Target]
	if s == "missing" {
		allowed = append(allowed, c06Allowed{class: "rej", tag: 49})
	}
	if t == "missing" {
		allowed = append(allowed, c06Allowed{class: "rej", tag: 56})
	}
	if s == "empty" {
		allowed = append(allowed, c06Allowed{class: "rej", tag: 49})
	}
	if t == "empty" {
		allowed = append(allowed, c06Allowed{class: "rej", tag: 56})
	}
	if (s == "wrong" || t == "wrong") && s != "missing" && t != "missing" && s != "empty" && t != "empty" {
		allowed = append(allowed, c06Allowed{class: "rej+logout", reason: 9})
	}
	if s != "ok" || t != "ok" {
		gateClosed = true
	}
	switch c06Time[c.Time] {
	case "-1h", "+1h", "-30s":
		if latency {
			allowed = append(allowed, c06Allowed{class: "rej+logout", reason: 10})
			gateClosed = true
		} else if recovering && !c.Cfg.NoCheckLatency {
			allowed = append(allowed, c06Allowed{class: "rej+logout", reason: 10}) // permitted, not mandated
		}
	case "garbled", "missing":
		if latency {
			allowed = append(allowed, c06Allowed{class: "rej", tag: 52})
			gateClosed = true
		} else if recovering && !c.Cfg.NoCheckLatency {
			allowed = append(allowed, c06Allowed{class: "rej", tag: 52})
		}
	}
	if c.Cfg.DataDictionary != "" {
		switch c06Time[c.Time] {
		case "missing": // required by every dictionary's header
			allowed = append(allowed, c06Allowed{class: "rej", tag: 52})
			gateClosed = true
		case "garbled": // ill-typed for UTCTIMESTAMP when field checks are on
			if c.Cfg.Extra["RejectInvalidMessage"] != "N" {
				allowed = append(allowed, c06Allowed{class: "rej", tag: 52})
			}
		}
	}
	switch c06Time[c.Time] {
	case "empty":
		// an empty SendingTime fails the time check when there is one, and message validation otherwise
		if latency || c06HaveValues(c.Cfg) {
			allowed = append(allowed, c06Allowed{class: "rej", tag: 52})
			gateClosed = true
		} else if recovering && !c.Cfg.NoCheckLatency {
			allowed = append(allowed, c06Allowed{class: "rej", tag: 52})
		}
	}
	if t := c06ValDefect(c); t != 0 {
		allowed = append(allowed, c06Allowed{class: "rej", tag: t})
		gateClosed = true
	}
	if seqChecked(ty) {
		switch c06Seq[c.Seq] {
		case "missing", "empty", "garbled":
			allowed = append(allowed, c06Allowed{class: "rej", tag: 34})
			gateClosed = true
		case "T+1":
			allowed = append(allowed, c06Allowed{class: "resend"}, c06Allowed{class: "silent"})
			gateClosed = true
		case "T-1":
			gateClosed = true
			switch c06PD[c.PD] {
			case "absent", "N":
				allowed = append(allowed, c06Allowed{class: "logout"})
			case "garbled":
				allowed = append(allowed, c06Allowed{class: "rej", tag: 43})
			case "Y":
				switch c06Orig[c.Orig] {
				case "absent":
					allowed = append(allowed, c06Allowed{class: "rej", tag: 122})
				case "garbled":
					allowed = append(allowed, c06Allowed{class: "rej", tag: 122})
				case "earlier", "same":
					allowed = append(allowed, c06Allowed{class: "silent"})
				case "later":
					allowed = append(allowed, c06Allowed{class: "rej+logout", reason: 10})
				}
				// the comparison needs a readable SendingTime
				if tm := c06Time[c.Time]; tm == "garbled" || tm == "missing" || tm == "empty" {
					allowed = append(allowed, c06Allowed{class: "rej", tag: 52})
				}
			}
		}
	}
	return
}

func c06Match(o c06Outcome, a c06Allowed, oldFix bool) bool {
	if o.class != a.class {
		return false
	}
	switch a.class {
	case "rej+logout":
		return oldFix || o.reason == a.reason
	case "rej":
		return o.refTag == a.tag
	}
	return true
}

// c06Eval runs one case and returns a violation (rule, text) or "".
func c06Eval(c c06Case) (rule, what string, err error) {
	wcfg := c.Cfg
	if wcfg.DataDictionary != "" {
		wcfg.DataDictionary = c06TrimmedSpec(wcfg.DataDictionary)
	}
	w, e := sessmc.NewWorld(wcfg)
	if e != nil {
		return "", "", e
	}
	defer w.Close()
	for _, ev := range c06Prefix(c.State) {
		w.Apply(ev)
	}
	st0 := w.VS.Snapshot().State
	T0 := w.T()
	in, _ := c06Build(w, c)
	ev := &sessmc.Event{K: "in", Name: "in(case)", In: in}
	stash0 := w.VS.Snapshot().Stash // numbers kept before the case message arrives
	obs := w.Apply(ev)
	var outs []sessmc.Obs
	delivered, onLogon := false, false
	others := 0 // callbacks for other messages (kept ones delivered in the same transition)
	for _, o := range obs {
		if (o.K == "FromApp" || o.K == "FromAdmin") && w.LastIn != nil && o.Seq != w.LastIn.Seq() {
			others++
		}
		switch o.K {
		case "panic":
			return "C06/panic", o.Txt, nil
		case "out":
			outs = append(outs, o)
		case "FromApp", "FromAdmin":
			mine := true
			if w.LastIn != nil {
				if v, ok := w.LastIn.Get(34); ok {
					if n, e := strconv.Atoi(v); e == nil && n != o.Seq {
						mine = false
					}
				}
			}
			if mine && !(o.K == "FromAdmin" && o.Type == "A") {
				delivered = true
			}
		case "OnLogon":
			onLogon = true
		}
	}
	ty := c06Types[c.Ty]
	allowed, gateClosed, mandatory := c06Expected(c)
	state := c06States[c.State]
	// (G) only-if
	if delivered && gateClosed {
		return "C06/G-delivered-despite-defect type=" + ty + " state=" + state, fmt.Sprintf("message reached the application callbacks although it fails the session-level checks: %s", c), nil
	}
	if ty == "A" && onLogon && gateClosed {
		return "C06/G-logon-established-despite-defect", fmt.Sprintf("Logon accepted although it fails the session-level checks: %s", c), nil
	}
	// (G, later) a message that failed an identity/time check on arrival must not surface later from the
	// kept-message stash either
	if !delivered && w.LastIn != nil {
		caseSeq := w.LastIn.Seq()
		kept := false
		for _, k := range w.VS.Snapshot().Stash {
			if k == caseSeq {
				kept = true
			}
		}
		_, closedNow, _ := c06Expected(c06Case{Cfg: c.Cfg, State: c.State, BS: c.BS, Sender: c.Sender, Target: c.Target, Time: c.Time, Ty: c.Ty})
		if kept && closedNow && !strings.Contains(state, "recovering") {
			replay := sessmc.EvIn("D", 0, true, fullOrderBody...)
			for i := 0; i < 6 && recovering(w.VS.Snapshot().State) && w.T() < caseSeq; i++ {
				for _, o := range w.Apply(replay) {
					if (o.K == "FromApp" || o.K == "FromAdmin") && o.Seq == caseSeq {
						return "C06/G-delivered-later-despite-defect type=" + ty, fmt.Sprintf("message was kept as early and later reached the application callbacks although it failed the session-level checks on arrival: %s", c), nil
					}
				}
			}
		}
	}
	out, rejects := c06Classify(outs)
	oldFix := c.Cfg.BeginString == "FIX.4.0" || c.Cfg.BeginString == "FIX.4.1"
	// (Q) every Reject quotes the offending number and reverses the routing fields
	for _, r := range rejects {
		if others > 0 {
			break // a Reject may belong to a kept message processed in the same transition
		}
		if w.LastIn != nil {
			if v, ok := w.LastIn.Get(34); ok {
				if n, e := strconv.Atoi(v); e == nil {
					q, ok := r.Int(45)
					keptOne := false
					for _, k := range stash0 {
						if ok && k == q && q != n {
							keptOne = true // the Reject answers a kept message processed (and refused) in the same transition
						}
					}
					if keptOne {
						continue
					}
					if !ok || q != n {
						return "C06/Q-refseqnum", fmt.Sprintf("Reject RefSeqNum=%v for offending MsgSeqNum %d: %s", q, n, c), nil
					}
				}
			}
		}
		if c.Routing {
			for _, p := range [][2]int{{57, 50}, {143, 142}, {128, 115}} {
				if c.Cfg.BeginString == "FIX.4.0" && p[0] == 143 {
					continue
				}
				want, _ := w.LastIn.Get(p[1])
				if got, _ := r.Get(p[0]); got != want {
					return fmt.Sprintf("C06/Q-routing-not-reversed tag=%d", p[0]), fmt.Sprintf("Reject carries %d=%q, offending message had %d=%q: %s", p[0], got, p[1], want, c), nil
				}
			}
		}
		if v, _ := r.Get(49); v != sessmc.OurComp {
			return "C06/Q-reject-sender", fmt.Sprintf("Reject SenderCompID %q: %s", v, c), nil
		}
	}
	// (R) mandated reaction, in logged-on states, for non-Logon messages
	if state != "logout" && ty != "A" && mandatory > 0 && loggedOnState(st0) {
		ok := false
		for _, a := range allowed {
			if c06Match(out, a, oldFix) {
				ok = true
			}
		}
		if !ok {
			names := []string{}
			for _, a := range allowed {
				names = append(names, a.String())
			}
			single := len(allowed) == 1
			return fmt.Sprintf("C06/R-wrong-reaction got=%s single=%v type=%s", out.class, single, ty),
				fmt.Sprintf("reaction %v (reason %d, ref tag %d); the defects present allow %v: %s", out.types, out.reason, out.refTag, names, c), nil
		}
		// (T) logout-class reactions do not advance the expected number
		if out.class == "logout" || out.class == "rej+logout" {
			if w.T() != T0 {
				return "C06/T-target-advanced-on-logout-class", fmt.Sprintf("expected inbound number %d → %d: %s", T0, w.T(), c), nil
			}
		}
	}
	// (T2) a message carrying a wrong BeginString, wrong CompIDs or an out-of-window SendingTime does not advance the
	// expected inbound number. The statement's only carve-out is a message in which "such a field" (identity, time) is
	// missing, empty or malformed; so when all of 8/49/56/52 are readable and one of them is wrong, this holds whatever
	// MsgSeqNum, PossDupFlag or OrigSendingTime look like
	if state != "logout" && ty != "A" && loggedOnState(st0) {
		s, t := c06Comp[c.Sender], c06Comp[c.Target]
		latency := !c.Cfg.NoCheckLatency && !strings.Contains(state, "recovering")
		tm := c06Time[c.Time]
		readable := (s == "ok" || s == "wrong") && (t == "ok" || t == "wrong") && (tm == "now" || tm == "-1h" || tm == "+1h")
		carries := readable && c.Val == 0 && (c06BS[c.BS] == "other" || s == "wrong" || t == "wrong" || (tm != "now" && latency))
		if carries && w.T() != T0 {
			return "C06/T-target-advanced-by-message-with-wrong-identity-or-time got=" + out.class, fmt.Sprintf("expected inbound number %d → %d (reaction %v): %s", T0, w.T(), out.types, c), nil
		}
	}
	return "", "", nil
}

func init() {
	register("C06", core.LevelExploration, runC06)
	core.RegisterReplay("C06/case", func(data json.RawMessage) (bool, string, error) {
		var c c06Case
		if err := json.Unmarshal(data, &c); err != nil {
			return false, "", err
		}
		r, w, err := c06Eval(c)
		return r != "", r + ": " + w, err
	})
}

func c06Configs(quick bool) []sessmc.Config {
	var out []sessmc.Config
	for _, bs := range []string{"FIX.4.0", "FIX.4.1", "FIX.4.2", "FIX.4.4", "FIXT.1.1"} {
		for _, nolat := range []bool{false, true} {
			for _, dd := range []bool{false, true} {
				cfg := sessmc.Config{BeginString: bs, NoCheckLatency: nolat}
				if dd {
					switch bs {
					case "FIX.4.0":
						cfg.DataDictionary = specDir + "FIX40.xml"
					case "FIX.4.1":
						cfg.DataDictionary = specDir + "FIX41.xml"
					case "FIX.4.2":
						cfg.DataDictionary = specDir + "FIX42.xml"
					case "FIX.4.4":
						cfg.DataDictionary = specDir + "FIX44.xml"
					default:
						continue
					}
				}
				if quick && (bs == "FIX.4.1" || (dd && bs != "FIX.4.4") || (nolat && bs != "FIX.4.2")) {
					continue
				}
				out = append(out, cfg)
			}
		}
	}
	// an explicit latency window next to the explicit switch
	out = append(out, sessmc.Config{BeginString: "FIX.4.2", Extra: map[string]string{"CheckLatency": "Y", "MaxLatency": "5"}})
	// validator settings: each field-content check switched off on its own and both together, without a
	// dictionary and with one whose field checks are off (RejectInvalidMessage=N)
	for _, x := range []map[string]string{
		{"ValidateFieldsOutOfOrder": "N"}, {"ValidateFieldsHaveValues": "N"}, {"ValidateFieldsOutOfOrder": "N", "ValidateFieldsHaveValues": "N"},
	} {
		out = append(out, sessmc.Config{BeginString: "FIX.4.2", Extra: x})
		if !quick {
			out = append(out, sessmc.Config{BeginString: "FIX.4.2", NoCheckLatency: true, Extra: x})
		}
		y := map[string]string{"RejectInvalidMessage": "N"}
		for k, v := range x {
			y[k] = v
		}
		if !quick || len(x) == 1 {
			out = append(out, sessmc.Config{BeginString: "FIX.4.4", DataDictionary: specDir + "FIX44.xml", Extra: y})
		}
	}
	// the two settings that decide about fields the dictionary does not define, each alone and together
	for _, x := range []map[string]string{{"AllowUnknownMsgFields": "Y"}, {"ValidateUserDefinedFields": "N"}, {"AllowUnknownMsgFields": "Y", "ValidateUserDefinedFields": "N"}} {
		out = append(out, sessmc.Config{BeginString: "FIX.4.4", DataDictionary: specDir + "FIX44.xml", Extra: x})
	}
	return out
}

func runC06(c *core.Ctx) {
	quick := c.Quick()
	if quick {
		c.SetDeadline(5 * time.Minute)
	} else {
		c.SetDeadline(45 * time.Minute)
	}
	c.SetRule("cartesian product of header-field variants (BeginString 2 x SenderCompID 4 x TargetCompID 4 x SendingTime 7 x MsgSeqNum 6 x PossDupFlag 4 x OrigSendingTime 5 x MsgType 10 x validation defect 9 {none, empty body field, empty routing header field, header field after the body, required body field missing, unknown MsgType, a body field the dictionary does not define numbered 4999 / 5000 / 5001 (the last five with a dictionary; AllowUnknownMsgFields / ValidateUserDefinedFields each alone and together)}) delivered to a real session in each of 5 states and each configuration; quick: at most two non-default axes per message, thorough: full product for two configurations and pairs elsewhere; distinct = distinct (config,state,message) triples")
	c.Assume("oracle is set-valued: with several defects present any reaction mandated for one of them is accepted", "in-session Logon messages are judged only by the only-if part",
		"Reject naming the field: RefTagID (FIX.4.2+) or the '(tag)' suffix of Text (FIX.4.0/4.1)", "SendingTime fresh to within a second; MaxLatency default 120 s; stale = 1 h",
		"validator settings: ValidateFieldsOutOfOrder / ValidateFieldsHaveValues each N alone and together, with and without a dictionary (RejectInvalidMessage=N); a validation defect closes the gate exactly when its setting is on")
	cfgs := c06Configs(quick)
	var cases []c06Case
	for ci, cfg := range cfgs {
		full := !quick && (ci == 2 || cfg.BeginString == "FIX.4.4" && cfg.DataDictionary != "" && !cfg.NoCheckLatency)
		for st := range c06States {
			for ty := range c06Types {
				for bs := range c06BS {
					for s := range c06Comp {
						for t := range c06Comp {
							for tm := range c06Time {
								for sq := range c06Seq {
									for pd := range c06PD {
										for or := range c06Orig {
											for val := range c06Val {
												nd := 0
												for _, v := range []int{bs, s, t, tm, sq, pd, or, val} {
													if v != 0 {
														nd++
													}
												}
												if !full && nd > 2 {
													// keep the PossDup/Orig combinations of a too-low number (a triple by construction)
													if !(sq == 1 && pd != 0 && nd == 3 && or != 0) {
														continue
													}
												}
												if !seqChecked(c06Types[ty]) && sq != 0 {
													continue
												}
												if c06Orig[or] == "same" && c06PD[pd] != "Y" {
													continue
												}
												if c06Time[tm] == "-30s" && cfg.Extra["MaxLatency"] == "" {
													continue
												}
												if v := c06Val[val]; v == "missing-required-field" || v == "unknown-msgtype" {
													if cfg.DataDictionary == "" || nd != 1 || (v == "missing-required-field") != (c06Types[ty] == "D") || (v == "unknown-msgtype") != (c06Types[ty] == "ZZ") {
														continue
													}
												} else if strings.HasPrefix(v, "undefined-tag") {
													if cfg.DataDictionary == "" || nd != 1 || c06Types[ty] != "D" {
														continue
													}
												}
												if full && val != 0 && nd > 3 {
													continue
												}
												cases = append(cases, c06Case{Cfg: cfg, State: st, BS: bs, Sender: s, Target: t, Time: tm, Seq: sq, PD: pd, Orig: or, Ty: ty, Val: val,
													Routing: (bs+s+t+tm+sq+pd+or+ty+st)%3 == 0})
											}
										}
									}
								}
							}
						}
					}
				}
			}
		}
	}
	c.Set("configurations", len(cfgs))
	c.Set("cases_planned", len(cases))
	var idx int64 = -1
	var done int64
	var wg sync.WaitGroup
	outcomes := sync.Map{}
	for wk := 0; wk < runtime.NumCPU(); wk++ {
		wg.Add(1)
		go func() {
			defer wg.Done()
			for {
				i := atomic.AddInt64(&idx, 1)
				if int(i) >= len(cases) || (i%256 == 0 && c.Expired()) {
					return
				}
				cs := cases[i]
				rule, what, err := c06Eval(cs)
				atomic.AddInt64(&done, 1)
				if err != nil {
					c.EngineError(err.Error())
					return
				}
				outcomes.Store(rule, true)
				if rule != "" {
					c.Violation(rule+" cfg="+cs.Cfg.String(), what, "C06/case", cs)
				}
				if i%9973 == 0 {
					c.Sample(cs.String())
				}
			}
		}()
	}
	wg.Wait()
	c.AddEval(done)
	c.DistinctN(done)
	if int(done) < len(cases) {
		c.Cap("not all planned cases evaluated")
	}
}
