// Package checks: one file per property; each registers a run function and its replay drivers.
package checks

import "verif/internal/core"

type Check struct {
	ID    string
	Level string
	Run   func(c *core.Ctx)
}

var All = map[string]*Check{}

func register(id, level string, run func(c *core.Ctx)) {
	All[id] = &Check{ID: id, Level: level, Run: run}
}
