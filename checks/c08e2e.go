package checks

import (
	"fmt"
	"hash/fnv"
	"strings"
	"time"

	"verif/internal/core"
)

// ---- C08 on the real engines: every path of a small model-pair state graph (sends on either side, one cut, file
// store restarts) is replayed on a real Initiator + Acceptor pair inside a bubble, once with plain cuts and once with
// the writes failing first, and judged by the connection / logged-on-period rules (internal/e2e/lifecycle.go) ----

func c08Paths(scratch string, file bool, budget c05Budget, maxDepth int, expired func() bool) (paths [][]uint8) {
	seen := map[uint64]bool{}
	frontier := [][]uint8{{}}
	for depth := 1; depth <= maxDepth && len(frontier) > 0 && !expired(); depth++ {
		var next [][]uint8
		for _, base := range frontier {
			for e := uint8(0); e <= evRestartA; e++ {
				path := append(append([]uint8{}, base...), e)
				p, ok, err := c05Build(file, scratch, path, budget)
				if err != nil || !ok {
					if p != nil {
						p.Close()
					}
					continue
				}
				h := fnv.New64a()
				h.Write([]byte(p.Key()))
				cnt := [11]int{}
				for _, x := range path {
					cnt[x]++
				}
				fmt.Fprintf(h, "|%d,%d,%d", cnt[evSendI], cnt[evSendA], cnt[evCut]+cnt[evRestartI]+cnt[evRestartA])
				p.Close()
				if seen[h.Sum64()] {
					continue
				}
				seen[h.Sum64()] = true
				next = append(next, path)
				paths = append(paths, path)
			}
		}
		frontier = next
	}
	return
}

func runC08E2E(c *core.Ctx) {
	scratch, cleanup := core.Scratch("c08e")
	defer cleanup()
	budget := c05Budget{Sends: 1, Faults: 1, Swaps: 0}
	depth, tbudget := 40, 3*time.Minute
	if !c.Quick() {
		budget = c05Budget{Sends: 2, Faults: 1, Swaps: 0}
		tbudget = 15 * time.Minute
	}
	var items []e2eItem
	for _, file := range []bool{false, true} {
		for _, path := range c08Paths(scratch, file, budget, depth, c.Expired) {
			items = append(items, e2eItem{File: file, Path: path, Budget: budget, Oracle: "C08"})
			for _, ev := range path {
				if ev == evCut {
					items = append(items, e2eItem{File: file, Path: path, Budget: budget, Oracle: "C08", Mode: 1})
					break
				}
			}
		}
	}
	res, err := e2eExec(items, tbudget)
	if err != nil {
		c.EngineError(err.Error())
		return
	}
	c.AddEval(int64(res.Replayed))
	c.AddTraces(int64(res.Matched))
	c.Set("real_engine_paths_replayed", res.Replayed)
	c.Set("real_engine_frames_forwarded", res.Frames)
	if res.NotRun > 0 {
		c.Cap(fmt.Sprintf("real-engine replay stopped early (time budget %v or 25 violations): %d of %d paths not replayed", tbudget, res.NotRun, res.Replayed+res.NotRun))
	}
	for _, v := range res.Violations {
		store := "memory"
		if v.Item.File {
			store = "file"
		}
		c.Violation(fmt.Sprintf("C08/E-%s store=%s", v.Rule, store), "real Initiator+Acceptor (run loops, connection loops, timers under a virtual clock): "+v.What+" | "+c05Describe(v.Item.Path)+" | trace: "+strings.Join(v.Trace, "; "), "C05/e2e", v.Item)
	}
	for i, e := range res.Errors {
		if i < 3 {
			c.EngineError("real-engine replay: " + e)
		}
	}
}
