package checks

import (
	"bytes"
	"encoding/json"
	"fmt"
	"runtime"
	"sort"
	"strconv"
	"strings"
	"sync"
	"sync/atomic"
	"time"

	"github.com/quickfixgo/quickfix"

	"verif/internal/core"
	"verif/internal/fixscan"
)

// ---------- C10: built messages are well-formed FIX whatever API calls produced them ----------

type c10Op struct {
	K   string `json:"k"` // set int bool remove clear group copy copyparsed copybuilt build
	Sec int    `json:"sec"`
	Tag int    `json:"tag,omitempty"`
	Val string `json:"val,omitempty"`
	API int    `json:"api,omitempty"` // which setter variant
	N   int    `json:"n,omitempty"`   // group entries
}

func (o c10Op) String() string {
	sec := []string{"H", "B", "T"}[o.Sec]
	switch o.K {
	case "set":
		return fmt.Sprintf("%s.set%d(%d,%q)", sec, o.API, o.Tag, o.Val)
	case "int":
		return fmt.Sprintf("%s.SetInt(%d,%s)", sec, o.Tag, o.Val)
	case "bool":
		return fmt.Sprintf("%s.SetBool(%d)", sec, o.Tag)
	case "remove":
		return fmt.Sprintf("%s.Remove(%d)", sec, o.Tag)
	case "clear":
		return sec + ".Clear()"
	case "group":
		return fmt.Sprintf("%s.SetGroup(%d x%d)", sec, o.Tag, o.N)
	}
	return o.K
}

type c10Entry struct {
	scalar string
	group  []fixscan.Field // flattened incl. the count field; nil for scalars
}

type c10Model [3]map[int]*c10Entry

func newC10Model() *c10Model {
	var m c10Model
	for i := range m {
		m[i] = map[int]*c10Entry{}
	}
	return &m
}

func (m *c10Model) clone() *c10Model {
	n := newC10Model()
	for i := range m {
		for k, v := range m[i] {
			e := *v
			n[i][k] = &e
		}
	}
	return n
}

type typedField struct {
	tag quickfix.Tag
	val string
}

func (t typedField) Tag() quickfix.Tag { return t.tag }
func (t typedField) Write() []byte     { return []byte(t.val) }

func secOf(msg *quickfix.Message, i int) *quickfix.FieldMap {
	switch i {
	case 0:
		return &msg.Header.FieldMap
	case 1:
		return &msg.Body.FieldMap
	}
	return &msg.Trailer.FieldMap
}

const groupTag = 453

func c10Group(n int) (*quickfix.RepeatingGroup, []fixscan.Field) {
	sub := func() *quickfix.RepeatingGroup {
		return quickfix.NewRepeatingGroup(802, quickfix.GroupTemplate{quickfix.GroupElement(523), quickfix.GroupElement(803)})
	}
	g := quickfix.NewRepeatingGroup(groupTag, quickfix.GroupTemplate{quickfix.GroupElement(448), quickfix.GroupElement(447), sub()})
	flat := []fixscan.Field{{groupTag, strconv.Itoa(n)}}
	for i := 0; i < n; i++ {
		e := g.Add()
		e.SetString(448, "P"+strconv.Itoa(i))
		flat = append(flat, fixscan.Field{448, "P" + strconv.Itoa(i)})
		if i == 0 {
			e.SetString(447, "D")
			flat = append(flat, fixscan.Field{447, "D"})
			sg := sub()
			sg.Add().SetString(523, "S").SetString(803, "1")
			e.SetGroup(sg)
			flat = append(flat, fixscan.Field{802, "1"}, fixscan.Field{523, "S"}, fixscan.Field{803, "1"})
		}
		if i == 1 {
			// two members the template does not name (they follow the template's members; set in tag order, so that
			// insertion order and tag order agree: their mutual order is not the statement's business)
			e.SetString(9001, "x")
			e.SetString(9002, "y")
			flat = append(flat, fixscan.Field{9001, "x"}, fixscan.Field{9002, "y"})
		}
	}
	return g, flat
}

// c10Apply applies an op to message and model.
func c10Apply(msg *quickfix.Message, mod *c10Model, o c10Op) {
	fm := secOf(msg, o.Sec)
	switch o.K {
	case "set":
		switch o.API {
		case 0:
			fm.SetString(quickfix.Tag(o.Tag), o.Val)
		case 1:
			fm.SetBytes(quickfix.Tag(o.Tag), []byte(o.Val))
		case 2:
			fm.SetField(quickfix.Tag(o.Tag), quickfix.FIXString(o.Val))
		default:
			fm.Set(typedField{quickfix.Tag(o.Tag), o.Val})
		}
		mod[o.Sec][o.Tag] = &c10Entry{scalar: o.Val}
	case "int":
		v, _ := strconv.Atoi(o.Val)
		fm.SetInt(quickfix.Tag(o.Tag), v)
		mod[o.Sec][o.Tag] = &c10Entry{scalar: o.Val}
	case "bool":
		fm.SetBool(quickfix.Tag(o.Tag), true)
		mod[o.Sec][o.Tag] = &c10Entry{scalar: "Y"}
	case "remove":
		fm.Remove(quickfix.Tag(o.Tag))
		delete(mod[o.Sec], o.Tag)
	case "clear":
		fm.Clear()
		mod[o.Sec] = map[int]*c10Entry{}
	case "group":
		g, flat := c10Group(o.N)
		fm.SetGroup(g)
		mod[o.Sec][o.Tag] = &c10Entry{group: flat}
	}
}

// c10CheckBytes checks the serialised form against the model.
func c10CheckBytes(b []byte, mod *c10Model) (rule, what string) {
	sm, err := fixscan.Scan(b)
	if err != nil {
		return "C10/unscannable", err.Error() + ": " + fixscan.Pretty(b)
	}
	f := sm.Fields
	// expected multiset per section; 9 and 10 are always produced by the builder
	secIdx := map[int]int{9: 0, 10: 2}
	for s := range mod {
		for t := range mod[s] {
			secIdx[t] = s
		}
	}
	for _, t := range []int{448, 447, 802, 523, 803} {
		secIdx[t] = 1
	}
	seen := map[int]int{}
	last := 0
	for i := 0; i < len(f); i++ {
		t := f[i].Tag
		s, known := secIdx[t]
		if !known {
			return "C10/F-unexpected-field", fmt.Sprintf("field %d=%s is not set in the message: %s", t, f[i].Value, fixscan.Pretty(b))
		}
		if s < last {
			return "C10/O-section-order", fmt.Sprintf("field %d of section %d after a field of section %d: %s", t, s, last, fixscan.Pretty(b))
		}
		last = s
		seen[t]++
		if t == 9 || t == 10 {
			continue
		}
		e := mod[s][t]
		if e == nil {
			return "C10/F-removed-field-present", fmt.Sprintf("field %d=%s was removed or never set: %s", t, f[i].Value, fixscan.Pretty(b))
		}
		if e.group != nil {
			for j, g := range e.group {
				if i+j >= len(f) || f[i+j] != g {
					return "C10/F-group-content", fmt.Sprintf("group %d: expected %v at position %d: %s", t, e.group, i, fixscan.Pretty(b))
				}
			}
			i += len(e.group) - 1
			continue
		}
		if f[i].Value != e.scalar {
			return "C10/F-stale-value", fmt.Sprintf("field %d has value %q, latest set value is %q: %s", t, f[i].Value, e.scalar, fixscan.Pretty(b))
		}
	}
	for s := range mod {
		for t := range mod[s] {
			if t == 9 || t == 10 {
				continue
			}
			if seen[t] != 1 {
				return fmt.Sprintf("C10/F-field-count=%d", seen[t]), fmt.Sprintf("field %d appears %d times: %s", t, seen[t], fixscan.Pretty(b))
			}
		}
	}
	if seen[9] != 1 || seen[10] != 1 {
		return "C10/F-framing-field-count", fmt.Sprintf("BodyLength x%d CheckSum x%d: %s", seen[9], seen[10], fixscan.Pretty(b))
	}
	// leading order 8, 9, 35 (those present), 10 last
	pos := func(tag int) int {
		for i, x := range f {
			if x.Tag == tag {
				return i
			}
		}
		return -1
	}
	want := 0
	for _, t := range []int{8, 9, 35} {
		if p := pos(t); p >= 0 {
			if p != want {
				return "C10/O-leading-order", fmt.Sprintf("tag %d at position %d, expected %d: %s", t, p, want, fixscan.Pretty(b))
			}
			want++
		}
	}
	if f[len(f)-1].Tag != 10 {
		return "C10/O-checksum-not-last", fixscan.Pretty(b)
	}
	// BodyLength and CheckSum
	i9 := bytes.Index(b, []byte("9="))
	if i9 != 0 {
		i9 = bytes.Index(b, []byte("\x019=")) + 1
	}
	start := i9 + bytes.IndexByte(b[i9:], 1) + 1
	i10 := bytes.LastIndex(b, []byte("\x0110="))
	if i10 < 0 {
		if bytes.HasPrefix(b, []byte("10=")) {
			i10 = -1
		}
	}
	bl := i10 + 1 - start
	if v, _ := sm.Get(9); v != strconv.Itoa(bl) {
		return "C10/L-bodylength", fmt.Sprintf("BodyLength %s, counted %d: %s", v, bl, fixscan.Pretty(b))
	}
	sum := 0
	for _, c := range b[:i10+1] {
		sum += int(c)
	}
	if v, _ := sm.Get(10); v != fmt.Sprintf("%03d", sum%256) {
		return "C10/L-checksum", fmt.Sprintf("CheckSum %q, computed %03d: %s", v, sum%256, fixscan.Pretty(b))
	}
	return "", ""
}

// c10CheckParse parses the bytes back (when they start with 8,9,35) and compares scalar fields.
func c10CheckParse(b []byte, mod *c10Model) (rule, what string) {
	if mod[0][8] == nil || mod[0][35] == nil || mod[0][8].scalar == "" || mod[0][35].scalar == "" {
		return "", ""
	}
	for s := range mod {
		for _, e := range mod[s] {
			if e.group == nil && e.scalar == "" {
				return "", "" // an empty value is not a parsable field value; serialisation is still checked
			}
		}
	}
	p := quickfix.NewMessage()
	if err := quickfix.ParseMessage(p, bytes.NewBuffer(append([]byte{}, b...))); err != nil {
		return "C10/P-not-parsable", fmt.Sprintf("%v: %s", err, fixscan.Pretty(b))
	}
	for s := range mod {
		fm := secOf(p, s)
		n := 0
		for t, e := range mod[s] {
			if t == 9 || t == 10 {
				continue
			}
			n++
			if e.group != nil {
				if v, err := fm.GetString(quickfix.Tag(t)); err != nil || v != e.group[0].Value {
					return "C10/P-group-count-field", fmt.Sprintf("parsed %d=%q, expected %q", t, v, e.group[0].Value)
				}
				continue
			}
			v, err := fm.GetString(quickfix.Tag(t))
			if err != nil || v != e.scalar {
				return "C10/P-field-mismatch", fmt.Sprintf("parsed section %d field %d = %q (%v), written %q: %s", s, t, v, err, e.scalar, fixscan.Pretty(b))
			}
		}
	}
	if !bytes.Equal(p.Bytes(), b) {
		return "C10/P-raw-bytes", "parsed message does not return the bytes it was parsed from"
	}
	return "", ""
}

var c10Parsed = fixscan.Build([]fixscan.Field{{8, "FIX.4.2"}, {35, "0"}, {34, "9"}, {49, "OLD"}, {56, "DST"}, {112, "stale"}})

func c10Run(prog []c10Op) (rule, what string) {
	var pan string
	func() {
		defer func() {
			if r := recover(); r != nil {
				pan = fmt.Sprint(r)
			}
		}()
		msg := quickfix.NewMessage()
		mod := newC10Model()
		type kept struct {
			m *quickfix.Message
			b []byte
		}
		var sources []kept // messages copied from: later work on the copy must not show through
		check := func(stage string) bool {
			for _, k := range sources {
				if again := quickfix.VerifBuild(k.m); !bytes.Equal(again, k.b) {
					rule, what = "C10/C-copy-not-independent", fmt.Sprintf("%s: a message that was copied from now serialises as %s, at copy time %s", stage, fixscan.Pretty(again), fixscan.Pretty(k.b))
					return false
				}
			}
			b := quickfix.VerifBuild(msg)
			if r, w := c10CheckBytes(b, mod); r != "" {
				rule, what = r, stage+": "+w
				return false
			}
			if r, w := c10CheckParse(b, mod); r != "" {
				rule, what = r, stage+": "+w
				return false
			}
			if s := msg.String(); s != string(b) {
				rule, what = "C10/S-string-differs-from-build", stage
				return false
			}
			return true
		}
		for i, o := range prog {
			switch o.K {
			case "build":
				if !check(fmt.Sprintf("after op %d", i)) {
					return
				}
			case "copy", "copyparsed":
				src := quickfix.VerifBuild(msg)
				dst := quickfix.NewMessage()
				if o.K == "copyparsed" {
					quickfix.ParseMessage(dst, bytes.NewBuffer(append([]byte{}, c10Parsed...)))
				}
				msg.CopyInto(dst)
				if got := dst.Bytes(); !bytes.Equal(got, src) {
					rule, what = "C10/C-copy-differs kind="+o.K, fmt.Sprintf("source %s, copy %s", fixscan.Pretty(src), fixscan.Pretty(got))
					return
				}
				if got := quickfix.VerifBuild(dst); !bytes.Equal(got, src) {
					rule, what = "C10/C-copy-builds-differently kind="+o.K, fmt.Sprintf("source %s, copy %s", fixscan.Pretty(src), fixscan.Pretty(got))
					return
				}
				// source unaffected, continue on the copy
				if again := quickfix.VerifBuild(msg); !bytes.Equal(again, src) {
					rule, what = "C10/C-copy-disturbed-source", ""
					return
				}
				sources = append(sources, kept{msg, src})
				msg = dst
				if o.K == "copyparsed" {
					// keep working on a fresh copy so that the stale raw bytes cannot mask later builds
					fresh := quickfix.NewMessage()
					dst.CopyInto(fresh)
					msg = fresh
				}
				mod = mod.clone()
			case "copybuilt":
				// the destination has been serialised before, the source is not serialised again before the copy
				dst := quickfix.NewMessage()
				dst.Header.SetString(8, "FIX.4.2").SetString(35, "0").SetString(49, "OLD")
				dst.Trailer.SetString(93, "1").SetString(89, "x")
				_ = quickfix.VerifBuild(dst)
				msg.CopyInto(dst)
				got := quickfix.VerifBuild(dst)
				src := quickfix.VerifBuild(msg)
				if !bytes.Equal(got, src) {
					rule, what = "C10/C-copy-builds-differently kind="+o.K, fmt.Sprintf("source %s, copy %s", fixscan.Pretty(src), fixscan.Pretty(got))
					return
				}
				sources = append(sources, kept{msg, src})
				msg = dst
				mod = mod.clone()
			default:
				c10Apply(msg, mod, o)
			}
		}
		check("end")
	}()
	if pan != "" {
		return "C10/panic", pan
	}
	return
}

func c10Alphabet(reduced bool) []c10Op {
	var a []c10Op
	tags := [3][]int{{8, 35, 1128}, {11, 55, groupTag}, {93, 89}}
	vals := []string{"A", "BC", "x=y", ""}
	if reduced {
		tags = [3][]int{{8, 35}, {11, groupTag}, {93}}
		vals = []string{"A", "BC"}
	}
	api := 0
	for s := 0; s < 3; s++ {
		for _, t := range tags[s] {
			for _, v := range vals {
				a = append(a, c10Op{K: "set", Sec: s, Tag: t, Val: v, API: api % 4})
				api++
			}
			if !reduced || t != 8 {
				a = append(a, c10Op{K: "int", Sec: s, Tag: t, Val: "7"})
			}
			if !reduced {
				a = append(a, c10Op{K: "bool", Sec: s, Tag: t})
			}
			a = append(a, c10Op{K: "remove", Sec: s, Tag: t})
		}
		a = append(a, c10Op{K: "clear", Sec: s})
	}
	// framing fields set by hand (the builder must overwrite them)
	a = append(a, c10Op{K: "set", Sec: 0, Tag: 9, Val: "7", API: 0}, c10Op{K: "set", Sec: 2, Tag: 10, Val: "000", API: 1})
	for _, n := range []int{0, 1, 2} {
		a = append(a, c10Op{K: "group", Sec: 1, Tag: groupTag, N: n})
	}
	a = append(a, c10Op{K: "copy"}, c10Op{K: "copyparsed"}, c10Op{K: "copybuilt"}, c10Op{K: "build"})
	return a
}

func init() {
	register("C10", core.LevelExploration, runC10)
	core.RegisterReplay("C10/prog", func(data json.RawMessage) (bool, string, error) {
		var prog []c10Op
		if err := json.Unmarshal(data, &prog); err != nil {
			return false, "", err
		}
		r, w := c10Run(prog)
		return r != "", r + ": " + w, nil
	})
}

func runC10(c *core.Ctx) {
	quick := c.Quick()
	if quick {
		c.SetDeadline(4 * time.Minute)
	} else {
		c.SetDeadline(40 * time.Minute)
	}
	type plan struct {
		reduced bool
		depth   int
	}
	plans := []plan{{false, 3}, {true, 5}}
	if !quick {
		plans = []plan{{false, 4}, {true, 6}}
	}
	c.SetRule("all programs of field-map operations up to depth d over (section x tag x {4 setter APIs, SetInt, SetBool, Remove}, Clear, SetGroup with 0/1/2 entries incl. a nested group and two members outside the template, overwriting a group by a scalar, hand-set BodyLength/CheckSum, CopyInto a fresh, a previously parsed or a previously serialised message and continue, build-now); field-map reference model + independent byte scanner; quick: full alphabet depth 3 and reduced alphabet depth 5; thorough: depth 4 and 6")
	c.Assume("tags are used in their proper section; values SOH-free (incl. the empty value, for which only serialisation is judged, not parse-back)",
		"field order inside a section is not prescribed by the statement except 8,9,35 first and 10 last")
	var evals int64
	for _, pl := range plans {
		alpha := c10Alphabet(pl.reduced)
		n := len(alpha)
		total := 1
		for i := 0; i < pl.depth; i++ {
			total *= n
		}
		var idx int64 = -1
		var wg sync.WaitGroup
		for wk := 0; wk < runtime.NumCPU(); wk++ {
			wg.Add(1)
			go func() {
				defer wg.Done()
				prog := make([]c10Op, pl.depth)
				for {
					i := atomic.AddInt64(&idx, 1)
					if int(i) >= total || (i%4096 == 0 && c.Expired()) {
						return
					}
					// decode i in base n; a trailing run of index n-1... we enumerate exactly depth ops; shorter programs are
					// prefixes whose states are checked by the final check of longer programs ending in "build".
					x := int(i)
					for k := pl.depth - 1; k >= 0; k-- {
						prog[k] = alpha[x%n]
						x /= n
					}
					rule, what := c10Run(prog)
					atomic.AddInt64(&evals, 1)
					if rule != "" {
						names := []string{}
						for _, o := range prog {
							names = append(names, o.String())
						}
						c.Violation(rule, what+" | program: "+strings.Join(names, "; "), "C10/prog", append([]c10Op{}, prog...))
					}
					if i%500009 == 0 {
						names := []string{}
						for _, o := range prog {
							names = append(names, o.String())
						}
						c.Sample(strings.Join(names, "; "))
					}
				}
			}()
		}
		wg.Wait()
		if int(idx) < total-1 {
			c.Cap(fmt.Sprintf("depth %d (reduced=%v) not completed", pl.depth, pl.reduced))
		}
		c.Set(fmt.Sprintf("alphabet_size_reduced_%v", pl.reduced), n)
	}
	c.AddEval(evals)
	c.DistinctN(evals)
	_ = sort.Ints
}
