package checks

import (
	"fmt"
	"strings"
	"time"

	"github.com/quickfixgo/quickfix"

	"verif/internal/core"
	"verif/internal/fixscan"
	"verif/internal/sessmc"
)

// ---------- C20: keep-alive (timed reference model over a virtual clock) ----------

type c20Mon struct {
	on           bool          // logged on, tracking
	lastSent     time.Duration // virtual instant of the last transmission
	lastRecv     time.Duration // virtual instant of the last reception
	pendingSince time.Duration
	prev         string
	now          time.Duration
}

func pendingState(st string) bool { return strings.HasPrefix(st, "pending{") }

func (m *c20Mon) Key() string {
	if !m.on {
		return "c20:-"
	}
	cap := func(d time.Duration) int {
		v := int(d / time.Second)
		if v > 200 {
			v = 200
		}
		return v
	}
	return fmt.Sprintf("c20:%d,%d,%d", cap(m.now-m.lastSent), cap(m.now-m.lastRecv), cap(m.now-m.pendingSince))
}

func (m *c20Mon) Step(w *sessmc.World, e *sessmc.Event, obs []sessmc.Obs) (rule, what string) {
	sn := w.VS.Snapshot()
	st, prev := sn.State, m.prev
	m.prev = st
	now := w.VNow
	m.now = now
	hb := sn.HeartBtInt
	peerInt := time.Duration(float64(1.2) * float64(hb))
	var outs []sessmc.Obs
	nTestReqIn := 0
	var testReqIDs []string
	gotOnLogout, gotClosed := false, false
	for _, o := range obs {
		switch o.K {
		case "panic":
			return "C20/panic", o.Txt
		case "out":
			outs = append(outs, o)
		case "FromAdmin":
			if o.Type == "1" {
				nTestReqIn++
			}
		case "OnLogout":
			gotOnLogout = true
		case "closed":
			gotClosed = true
		case "armS":
			if loggedOnState(st) && o.D != hb {
				return "C20/R6-heartbeat-timer-duration", fmt.Sprintf("heartbeat timer armed with %v, heartbeat interval is %v", o.D, hb)
			}
		case "armP":
			if loggedOnState(st) && o.D != peerInt {
				return "C20/R6-peer-timer-duration", fmt.Sprintf("peer timer armed with %v, expected 1.2 x %v", o.D, hb)
			}
		}
	}
	_ = testReqIDs
	wasLoggedOn := loggedOnState(prev)
	wasPending := pendingState(prev)
	isIn := e.K == "in"

	// R6: interval selection on the Logon
	if isIn && w.LastIn != nil && w.LastIn.Type() == "A" && prev == "logon" && loggedOnState(st) {
		want := time.Duration(w.Cfg.HeartBtInt) * time.Second
		if want == 0 {
			want = 30 * time.Second
		}
		if !w.Cfg.Initiator && !w.Cfg.HBOverride {
			if v, ok := w.LastIn.Int(108); ok {
				want = time.Duration(v) * time.Second
			}
		}
		if hb != want {
			return "C20/R6-interval-selection", fmt.Sprintf("heartbeat interval after logon is %v, expected %v (initiator=%v override=%v)", hb, want, w.Cfg.Initiator, w.Cfg.HBOverride)
		}
	}

	if wasLoggedOn {
		// R1: every TestRequest processed in sequence is answered by one Heartbeat with its TestReqID
		hbWithID := []string{}
		plainHB := 0
		testReqOut := 0
		for _, o := range outs {
			if o.PossDup {
				continue
			}
			switch o.Type {
			case "0":
				mm, _ := fixscan.Scan(o.Raw)
				if id, ok := mm.Get(112); ok {
					hbWithID = append(hbWithID, id)
				} else {
					plainHB++
				}
			case "1":
				testReqOut++
			}
		}
		if len(hbWithID) != nTestReqIn {
			return "C20/R1-testrequest-answer-count", fmt.Sprintf("%d TestRequests processed but %d Heartbeats with TestReqID sent", nTestReqIn, len(hbWithID))
		}
		if nTestReqIn == 1 && isIn && w.LastIn != nil && w.LastIn.Type() == "1" && w.LastIn.Seq() == w.LastInT {
			if id, _ := w.LastIn.Get(112); len(hbWithID) == 1 && hbWithID[0] != id {
				return "C20/R1-wrong-testreqid", fmt.Sprintf("TestRequest %q answered with TestReqID %q", id, hbWithID[0])
			}
		}
		// R2: heartbeat timer fires, no test request pending => one Heartbeat
		if e.K == "to" && e.To == quickfix.VerifNeedHeartbeat {
			if !wasPending && plainHB != 1 {
				return "C20/R2-no-heartbeat-when-due state=" + prev, fmt.Sprintf("heartbeat timer fired in %s but %d Heartbeats were sent", prev, plainHB)
			}
		}
		// R3/R4: peer timer
		if e.K == "to" && e.To == quickfix.VerifPeerTimeout {
			if !wasPending {
				if testReqOut != 1 || !pendingState(st) {
					return "C20/R3-no-testrequest-on-silence state=" + prev, fmt.Sprintf("peer timer fired in %s: %d TestRequests sent, state now %s", prev, testReqOut, st)
				}
				if recovering(prev) && !recovering(st) {
					return "C20/R5-recovery-lost-on-testrequest", fmt.Sprintf("state %s → %s", prev, st)
				}
			} else {
				if sn.Connected || !gotOnLogout || !gotClosed {
					return "C20/R4-no-disconnect-after-second-silence", fmt.Sprintf("peer timer fired while test request pending: connected=%v OnLogout=%v channelClosed=%v", sn.Connected, gotOnLogout, gotClosed)
				}
			}
		}
		// R5: any inbound message cancels the pending disconnect, recovery undisturbed
		if isIn && wasPending && loggedOnState(st) && e.In.Garbage == "" {
			if pendingState(st) {
				return "C20/R5-pending-not-cancelled", fmt.Sprintf("inbound %s left state %s", e.Name, st)
			}
		}
	}

	// clocks of the reference model
	if len(outs) > 0 {
		m.lastSent = now
	}
	if isIn {
		m.lastRecv = now
	}
	if pendingState(st) && (!wasPending || isIn) {
		m.pendingSince = now // (unparsable bytes restart the wait: something did arrive)
	}
	if !loggedOnState(st) {
		m.on = false
		return "", ""
	}
	if !m.on {
		m.on = true
		m.lastSent, m.lastRecv = now, now
	}
	// R6 arming invariants (what makes R2/R3/R4 hold as time passes)
	if !pendingState(st) {
		if !w.ArmS || w.DeadS > m.lastSent+hb {
			return "C20/R2-heartbeat-timer-not-armed after=" + evClassC20(e, prev), fmt.Sprintf("logged on, no test request pending, last transmission at %v, now %v: heartbeat timer armed=%v deadline=%v (must be <= %v)", m.lastSent, now, w.ArmS, w.DeadS, m.lastSent+hb)
		}
		if !w.ArmP || w.DeadP > m.lastRecv+peerInt {
			return "C20/R3-peer-timer-not-armed after=" + evClassC20(e, prev), fmt.Sprintf("last reception at %v, now %v: peer timer armed=%v deadline=%v (must be <= %v)", m.lastRecv, now, w.ArmP, w.DeadP, m.lastRecv+peerInt)
		}
	} else {
		if !w.ArmP || w.DeadP > m.pendingSince+peerInt {
			return "C20/R4-disconnect-timer-not-armed", fmt.Sprintf("test request pending since %v: peer timer armed=%v deadline=%v", m.pendingSince, w.ArmP, w.DeadP)
		}
	}
	return "", ""
}

func evClassC20(e *sessmc.Event, prev string) string {
	k := e.K
	if e.K == "to" {
		k = e.Name
	}
	if e.K == "in" {
		k = "in"
	}
	return k + "/" + prev
}

func c20Alphabet() []*sessmc.Event {
	return []*sessmc.Event{
		sessmc.EvTick(),
		sessmc.EvTimeout(quickfix.VerifNeedHeartbeat), sessmc.EvTimeout(quickfix.VerifPeerTimeout),
		sessmc.EvIn("0", 0, false), sessmc.EvIn("1", 0, false, fixscan.Field{112, "X17"}), sessmc.EvIn("D", 0, false),
		sessmc.EvIn("D", 2, false), sessmc.EvIn("D", 0, true), sessmc.EvIn("1", 1, false, fixscan.Field{112, "EARLY"}),
		sessmc.EvGarbage(), sessmc.EvSend(), sessmc.EvFlush(),
	}
}

func init() {
	register("C20", core.LevelMC, runC20)
	variantDefs["C20"] = func(cfg sessmc.Config) searchSpec {
		// the peer's Logon announces 20 s; an initiator (configured 30 s) and an overriding acceptor must ignore it
		// (configured 7 s: the peer announces 3 s — intervals whose 1.2-fold is not a whole number of seconds)
		announced := "20"
		if cfg.HeartBtInt == 7 {
			announced = "3"
		}
		logon := sessmc.EvIn("A", 0, false, fixscan.Field{108, announced})
		return searchSpec{cfg: cfg, alphabet: c20Alphabet(), prefix: []*sessmc.Event{sessmc.EvConnect(), logon},
			mons: func() []sessmc.Monitor { return []sessmc.Monitor{&c20Mon{}, &c04Mon{}} }, variant: "C20"}
	}
	// start from a state with a test request pending (silent peer for 1.2 intervals) ...
	variantDefs["C20/pending"] = func(cfg sessmc.Config) searchSpec {
		sp := variantDefs["C20"](cfg)
		for i := 0; i < 5; i++ {
			sp.prefix = append(sp.prefix, sessmc.EvTick())
		}
		sp.prefix = append(sp.prefix, sessmc.EvTimeout(quickfix.VerifNeedHeartbeat), sessmc.EvTick(), sessmc.EvTimeout(quickfix.VerifPeerTimeout))
		sp.variant = "C20/pending"
		return sp
	}
	// ... and from a test request pending during a gap recovery
	variantDefs["C20/pending-recovery"] = func(cfg sessmc.Config) searchSpec {
		sp := variantDefs["C20"](cfg)
		sp.prefix = append(sp.prefix, sessmc.EvIn("D", 2, false))
		for i := 0; i < 5; i++ {
			sp.prefix = append(sp.prefix, sessmc.EvTick())
		}
		sp.prefix = append(sp.prefix, sessmc.EvTimeout(quickfix.VerifNeedHeartbeat), sessmc.EvTick(), sessmc.EvTimeout(quickfix.VerifPeerTimeout))
		sp.variant = "C20/pending-recovery"
		return sp
	}
}

func runC20(c *core.Ctx) {
	depth := 8
	if !c.Quick() {
		depth = 12
		c.SetDeadline(45 * 60e9)
	} else {
		c.SetDeadline(5 * 60e9)
	}
	c.SetRule("BFS over timed event sequences (tick = HeartBtInt/5 of virtual time; a timer event is enabled only when its virtual deadline is due; time cannot pass a due timer) on a real logged-on session with virtual EventTimers, heartbeat intervals 30 s configured / 20 s announced and 7 s configured / 3 s announced; timed reference model checked on every transition; plus, on a real Initiator+Acceptor pair (run loops, connection loops, real EventTimers) inside a testing/synctest bubble: every script of per-tick actions {network delivers, nothing reaches the acceptor / the initiator / either, an order whose application callback takes 1.5 quarter-intervals on the receiving side, cut + initiator recreated with another interval} up to a depth, judged by the timed clauses R1-R5 on the stamped wire log (exact virtual time)")
	c.Assume("virtual time: EventTimer.Reset is intercepted (hook H3) and the explorer fires timers", "relative state keys incl. timer deadlines relative to the virtual clock",
		"unparsable inbound bytes count as 'something received'", "recovery clause is judged by the C04 reference model running alongside")
	for _, ini := range []bool{false, true} {
		for _, ov := range []bool{false, true} {
			if ini && ov {
				continue
			}
			for _, bs := range []string{"FIX.4.2", "FIX.4.4"} {
				if c.Quick() && bs == "FIX.4.4" && ov {
					continue
				}
				for _, hbi := range []int{30, 7} {
					if hbi == 7 && (bs != "FIX.4.2" || ov) {
						continue
					}
					cfg := sessmc.Config{Initiator: ini, BeginString: bs, Timed: true, HBOverride: ov, HeartBtInt: hbi}
					for _, v := range []string{"C20", "C20/pending", "C20/pending-recovery"} {
						sp := variantDefs[v](cfg)
						sp.depth, sp.relative, sp.conform = depth, true, 200
						if v != "C20" {
							sp.depth = depth - 1
						}
						runSearch(c, sp)
					}
				}
			}
		}
	}
	runConformance(c)
	runC20E2E(c)
	c.Set("depth_events", depth)
}
