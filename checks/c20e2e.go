package checks

import (
	"encoding/json"
	"fmt"
	"os"
	"os/exec"
	"path/filepath"
	"strings"
	"time"

	"verif/internal/core"
)

// ---- C20 on the real engines: every script of per-tick network/application actions up to a depth is run on a real
// Initiator + Acceptor pair (run loops, connection loops, real EventTimers) under a virtual clock
// (checks/e2e_ka_test.go, internal/e2e/keepalive.go; go1.26.8, tag conform) and judged by the timed clauses ----

type kaConfig struct {
	Name     string `json:"name"`
	HB       int    `json:"hb"`     // the initiator's HeartBtInt
	AccHB    int    `json:"acc_hb"` // > 0: acceptor with HeartBtIntOverride=Y and this interval
	HB2      int    `json:"hb2"`    // interval of the initiator after action R (restart on its store with other settings)
	Alphabet string `json:"alphabet"`
	Depth    int    `json:"depth"`
	TickDiv  int    `json:"tick_div"` // one tick = the (shorter) heartbeat interval / TickDiv (default 4)
}

type kaCase struct {
	Cfg    kaConfig `json:"config"`
	Script string   `json:"script"`
}

type kaViolation struct {
	Case  kaCase   `json:"case"`
	Rule  string   `json:"rule"`
	What  string   `json:"what"`
	Trace []string `json:"trace"`
}

type kaOut struct {
	Runs       int           `json:"runs"`
	NotRun     int           `json:"not_run"`
	Frames     int           `json:"frames"`
	Outcomes   int           `json:"distinct_outcomes"`
	Violations []kaViolation `json:"violations"`
	Errors     []string      `json:"errors"`
}

var kaActions = map[byte]string{'F': "network delivers", 'a': "nothing reaches the acceptor", 'i': "nothing reaches the initiator", 'b': "nothing reaches either side",
	'S': "initiator sends an order, the acceptor's application takes 1.5 ticks over it", 's': "acceptor sends an order, the initiator's application takes 1.5 ticks over it",
	'R': "connection cut, initiator recreated on its store with the other heartbeat interval"}

func kaDescribe(script string) string {
	var p []string
	for i := 0; i < len(script); i++ {
		p = append(p, kaActions[script[i]])
	}
	return strings.Join(p, "; ")
}

func kaExec(cfgs []kaConfig, one *kaCase, budget time.Duration) (*kaOut, error) {
	if err := e2eBuildBin(); err != nil {
		return nil, err
	}
	dir, cleanup := core.Scratch("kaio")
	defer cleanup()
	in, out := filepath.Join(dir, "in.json"), filepath.Join(dir, "out.json")
	var b []byte
	if one != nil {
		b, _ = json.Marshal(map[string]any{"one": one})
	} else {
		b, _ = json.Marshal(map[string]any{"configs": cfgs})
	}
	if err := os.WriteFile(in, b, 0o644); err != nil {
		return nil, err
	}
	cmd := exec.Command(e2eBin(), "-test.run", "^TestE2EKeepAlive$", "-test.timeout", "60m")
	cmd.Dir = filepath.Join(core.VerifDir, "checks")
	cmd.Env = append(os.Environ(), "KA_IN="+in, "KA_OUT="+out, "E2E_BUDGET="+budget.String())
	log, err := cmd.CombinedOutput()
	ob, rerr := os.ReadFile(out)
	if rerr != nil {
		os.MkdirAll(filepath.Join(core.VerifDir, ".scratch"), 0o755)
		os.WriteFile(filepath.Join(core.VerifDir, ".scratch", "ka_failed.log"), log, 0o644)
		return nil, fmt.Errorf("real-engine keep-alive run did not finish: %v: %s", err, lastLines(string(log), 6))
	}
	var res kaOut
	if err := json.Unmarshal(ob, &res); err != nil {
		return nil, err
	}
	return &res, nil
}

func init() {
	core.RegisterReplayThreads("C20/e2e", 1, func(data json.RawMessage) (bool, string, error) {
		var cs kaCase
		if err := json.Unmarshal(data, &cs); err != nil {
			return false, "", err
		}
		res, err := kaExec(nil, &cs, 0)
		if err != nil {
			return false, "", err
		}
		if len(res.Errors) > 0 {
			return false, "", fmt.Errorf("%s", res.Errors[0])
		}
		if len(res.Violations) > 0 {
			v := res.Violations[0]
			return true, v.Rule + ": " + v.What + " | " + strings.Join(v.Trace, "; "), nil
		}
		return false, "the real engines keep the connection alive as stated on this script", nil
	})
}

func kaConfigs(quick bool) []kaConfig {
	d := 0
	if !quick {
		d = 1
	}
	return []kaConfig{
		{Name: "interval-from-logon", HB: 8, Alphabet: "FaibSs", Depth: 6 + d},
		{Name: "interval-from-logon-long-silences", HB: 8, Alphabet: "FaibS", Depth: 6 + d, TickDiv: 2},
		{Name: "acceptor-overrides", HB: 8, AccHB: 4, Alphabet: "Faib", Depth: 6 + d, TickDiv: 2},
		{Name: "reconnect-with-shorter-interval", HB: 20, HB2: 4, Alphabet: "FaiR", Depth: 5 + d, TickDiv: 2},
		{Name: "reconnect-with-longer-interval", HB: 4, HB2: 12, Alphabet: "FaiR", Depth: 5 + d, TickDiv: 2},
		// long enough for a dead-peer disconnect, the initiator's reconnect and the keep-alive of the next connection
		{Name: "silent-acceptor-side-then-reconnect", HB: 4, Alphabet: "Fa", Depth: 12 + d, TickDiv: 2},
		{Name: "silent-initiator-side-then-reconnect", HB: 4, Alphabet: "Fi", Depth: 12 + d, TickDiv: 2},
	}
}

// runC20E2E runs the scripts on the real engines and folds the outcome into the evidence.
func runC20E2E(c *core.Ctx) {
	budget := 4 * time.Minute
	if !c.Quick() {
		budget = 30 * time.Minute
	}
	cfgs := kaConfigs(c.Quick())
	res, err := kaExec(cfgs, nil, budget)
	if err != nil {
		c.EngineError(err.Error())
		return
	}
	c.AddEval(int64(res.Runs))
	c.AddTraces(int64(res.Runs))
	c.Set("real_engine_scripts_run", res.Runs)
	c.Set("real_engine_frames", res.Frames)
	c.Set("real_engine_distinct_outcomes", res.Outcomes)
	c.Set("real_engine_configs", cfgs)
	if res.NotRun > 0 {
		c.Cap(fmt.Sprintf("real-engine keep-alive scripts: %d not run (time budget %v or 25 violations)", res.NotRun, budget))
	}
	for _, v := range res.Violations {
		c.Violation(v.Rule+" cfg="+v.Case.Cfg.Name, "real Initiator+Acceptor under a virtual clock: "+v.What+" | script: "+kaDescribe(v.Case.Script)+" | "+strings.Join(v.Trace, "; "), "C20/e2e", v.Case)
	}
	for i, e := range res.Errors {
		if i < 3 {
			c.EngineError("real-engine keep-alive run: " + e)
		}
	}
}
