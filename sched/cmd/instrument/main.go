// instrument: rewrites /repo/session.go for the schedule engine.
//   - import "sync"  ->  import sync "github.com/quickfixgo/quickfix/verifshim/vsync"
//   - `X.messageOut <- v` / `X.messageEvent <- v` statements        -> sync.Send(ch, v)
//   - select { case ch <- v: A; default: B } on those channels      -> if sync.TrySend(ch, v) { A } else { B }
//   - close(X.messageOut)                                            -> sync.Close(ch)
//
// and writes the overlay file for `go build -overlay`. A construct it does not recognise is left as
// is and reported on stdout (the scheduler's watchdog turns a blocked real channel operation into an
// engine error, never into a verdict).
package main

import (
	"bytes"
	"encoding/json"
	"fmt"
	"go/ast"
	"go/parser"
	"go/printer"
	"go/token"
	"os"
	"path/filepath"
	"strings"
)

const shimImport = `"github.com/quickfixgo/quickfix/verifshim/vsync"`

func isSchedChan(e ast.Expr) bool {
	if s, ok := e.(*ast.SelectorExpr); ok {
		return s.Sel.Name == "messageOut" || s.Sel.Name == "messageEvent"
	}
	return false
}

func call(fn string, args ...ast.Expr) *ast.CallExpr {
	return &ast.CallExpr{Fun: &ast.SelectorExpr{X: ast.NewIdent("sync"), Sel: ast.NewIdent(fn)}, Args: args}
}

type stats struct{ sends, trysends, closes, left int }

func rewriteBlock(list []ast.Stmt, st *stats) []ast.Stmt {
	for i, s := range list {
		list[i] = rewriteStmt(s, st)
	}
	return list
}

func rewriteStmt(s ast.Stmt, st *stats) ast.Stmt {
	switch n := s.(type) {
	case *ast.SendStmt:
		if isSchedChan(n.Chan) {
			st.sends++
			return &ast.ExprStmt{X: call("Send", n.Chan, n.Value)}
		}
		st.left++
	case *ast.SelectStmt:
		// single send + default on a scheduled channel
		var send *ast.CommClause
		var def *ast.CommClause
		other := false
		for _, c := range n.Body.List {
			cc := c.(*ast.CommClause)
			switch x := cc.Comm.(type) {
			case nil:
				def = cc
			case *ast.SendStmt:
				if isSchedChan(x.Chan) && send == nil {
					send = cc
				} else {
					other = true
				}
			default:
				other = true
			}
		}
		if send != nil && def != nil && !other && len(n.Body.List) == 2 {
			st.trysends++
			ss := send.Comm.(*ast.SendStmt)
			return &ast.IfStmt{Cond: call("TrySend", ss.Chan, ss.Value),
				Body: &ast.BlockStmt{List: rewriteBlock(send.Body, st)},
				Else: &ast.BlockStmt{List: rewriteBlock(def.Body, st)}}
		}
		for _, c := range n.Body.List {
			cc := c.(*ast.CommClause)
			cc.Body = rewriteBlock(cc.Body, st)
		}
	case *ast.ExprStmt:
		if c, ok := n.X.(*ast.CallExpr); ok {
			if id, ok := c.Fun.(*ast.Ident); ok && id.Name == "close" && len(c.Args) == 1 && isSchedChan(c.Args[0]) {
				st.closes++
				return &ast.ExprStmt{X: call("Close", c.Args[0])}
			}
		}
	case *ast.BlockStmt:
		n.List = rewriteBlock(n.List, st)
	case *ast.IfStmt:
		n.Body.List = rewriteBlock(n.Body.List, st)
		if n.Else != nil {
			n.Else = rewriteStmt(n.Else, st)
		}
	case *ast.ForStmt:
		n.Body.List = rewriteBlock(n.Body.List, st)
	case *ast.RangeStmt:
		n.Body.List = rewriteBlock(n.Body.List, st)
	case *ast.SwitchStmt:
		for _, c := range n.Body.List {
			cc := c.(*ast.CaseClause)
			cc.Body = rewriteBlock(cc.Body, st)
		}
	case *ast.TypeSwitchStmt:
		for _, c := range n.Body.List {
			cc := c.(*ast.CaseClause)
			cc.Body = rewriteBlock(cc.Body, st)
		}
	case *ast.LabeledStmt:
		n.Stmt = rewriteStmt(n.Stmt, st)
	}
	return s
}

func main() {
	if len(os.Args) < 4 {
		fmt.Fprintln(os.Stderr, "usage: instrument <repo> <outdir> <vsync.go>")
		os.Exit(2)
	}
	repo, out, shim := os.Args[1], os.Args[2], os.Args[3]
	src := filepath.Join(repo, "session.go")
	fset := token.NewFileSet()
	f, err := parser.ParseFile(fset, src, nil, parser.ParseComments)
	if err != nil {
		fmt.Fprintln(os.Stderr, err)
		os.Exit(2)
	}
	found := false
	for _, im := range f.Imports {
		if im.Path.Value == `"sync"` {
			im.Path.Value = shimImport
			im.Name = ast.NewIdent("sync")
			found = true
		}
	}
	if !found {
		fmt.Fprintln(os.Stderr, "session.go does not import sync")
		os.Exit(2)
	}
	st := &stats{}
	for _, d := range f.Decls {
		if fd, ok := d.(*ast.FuncDecl); ok && fd.Body != nil {
			fd.Body.List = rewriteBlock(fd.Body.List, st)
			// function literals (e.g. timer callbacks) are left alone: they run outside the scheduler
		}
	}
	var buf bytes.Buffer
	if err := printer.Fprint(&buf, fset, f); err != nil {
		fmt.Fprintln(os.Stderr, err)
		os.Exit(2)
	}
	os.MkdirAll(out, 0o755)
	dst := filepath.Join(out, "session.go")
	if err := os.WriteFile(dst, buf.Bytes(), 0o644); err != nil {
		fmt.Fprintln(os.Stderr, err)
		os.Exit(2)
	}
	ov := map[string]map[string]string{"Replace": {
		src: dst,
		filepath.Join(repo, "verifshim", "vsync", "vsync.go"): shim,
	}}
	// the file store's own lock (fileMu) becomes a scheduling point too: only the import is renamed
	fsrc := filepath.Join(repo, "store", "file", "file_store.go")
	if ff, err := parser.ParseFile(fset, fsrc, nil, parser.ParseComments); err == nil {
		renamed := false
		for _, im := range ff.Imports {
			if im.Path.Value == `"sync"` {
				im.Path.Value = shimImport
				im.Name = ast.NewIdent("sync")
				renamed = true
			}
		}
		var fb bytes.Buffer
		if renamed && printer.Fprint(&fb, fset, ff) == nil && strings.Contains(fb.String(), "sync.Mutex") && !strings.Contains(fb.String(), "sync.RWMutex") && !strings.Contains(fb.String(), "sync.WaitGroup") {
			fdst := filepath.Join(out, "file_store.go")
			if os.WriteFile(fdst, fb.Bytes(), 0o644) == nil {
				ov["Replace"][fsrc] = fdst
				defer fmt.Println("instrumented store/file/file_store.go: sync import renamed (fileMu is a scheduling point)")
			}
		}
	}
	b, _ := json.MarshalIndent(ov, "", " ")
	os.WriteFile(filepath.Join(out, "overlay.json"), b, 0o644)
	rep := fmt.Sprintf("instrumented session.go: %d blocking sends, %d non-blocking sends, %d closes rewritten; %d other send statements left as real channel operations", st.sends, st.trysends, st.closes, st.left)
	fmt.Println(rep)
	if st.sends == 0 || st.trysends == 0 || !strings.Contains(buf.String(), "sync.Mutex") {
		fmt.Fprintln(os.Stderr, "instrumenter did not find the expected constructs")
		os.Exit(2)
	}
}
