//go:build vsched

// vsched: Engine B — stateless exploration of thread interleavings of the real session code under a
// cooperative scheduler (iterative preemption bounding). Built with `go build -overlay` so that
// session.go's sync primitives and channel operations on messageOut/messageEvent go through the shim.
package main

import (
	"bytes"
	"encoding/json"
	"flag"
	"fmt"
	"os"
	"runtime"
	"sort"
	"strconv"
	"strings"
	"sync"
	"sync/atomic"
	"time"

	"github.com/quickfixgo/quickfix"
	"github.com/quickfixgo/quickfix/config"
	filestore "github.com/quickfixgo/quickfix/store/file"
	"github.com/quickfixgo/quickfix/verifshim/vsync"

	"verif/internal/fixscan"
)

// ---- store wrapper: every call is a plain scheduling point ----

type pstore struct {
	quickfix.MessageStore
	x *exec
}

// storeOp: what the session did to the store, in the order it happened (recorded at the instant of the call).
type storeOp struct {
	kind string // save, incr, reset
	n    int    // number persisted (save) / consumed (incr)
	next int    // the store's next outbound number at that instant
}

func (p pstore) op(kind string, n int) {
	p.x.mu.Lock()
	if p.x.live {
		p.x.ops = append(p.x.ops, storeOp{kind, n, p.MessageStore.NextSenderMsgSeqNum()})
	}
	p.x.mu.Unlock()
}
func (p pstore) Reset() error {
	vsync.Point()
	p.op("reset", 0)
	return p.MessageStore.Reset()
}

func (p pstore) NextSenderMsgSeqNum() int { vsync.Point(); return p.MessageStore.NextSenderMsgSeqNum() }
func (p pstore) NextTargetMsgSeqNum() int { return p.MessageStore.NextTargetMsgSeqNum() }
func (p pstore) SaveMessageAndIncrNextSenderMsgSeqNum(n int, b []byte) error {
	vsync.Point()
	p.op("save", n)
	return p.MessageStore.SaveMessageAndIncrNextSenderMsgSeqNum(n, b)
}
func (p pstore) IncrNextSenderMsgSeqNum() error {
	vsync.Point()
	p.op("incr", p.MessageStore.NextSenderMsgSeqNum())
	return p.MessageStore.IncrNextSenderMsgSeqNum()
}
func (p pstore) IterateMessages(b, e int, cb func([]byte) error) error {
	vsync.Point()
	return p.MessageStore.IterateMessages(b, e, func(m []byte) error {
		vsync.Point()
		return cb(m)
	})
}

type pfactory struct {
	inner quickfix.MessageStoreFactory
	base  *quickfix.MessageStore
	x     *exec
}

func (f pfactory) Create(id quickfix.SessionID) (quickfix.MessageStore, error) {
	st, err := f.inner.Create(id)
	if err != nil {
		return nil, err
	}
	*f.base = st
	return pstore{st, f.x}, nil
}

// ---- application: records numbers assigned to engine-generated messages ----

type app struct{ x *exec }

func (a *app) OnCreate(quickfix.SessionID) {}
func (a *app) OnLogon(quickfix.SessionID)  {}
func (a *app) OnLogout(quickfix.SessionID) {}
func (a *app) ToAdmin(m *quickfix.Message, _ quickfix.SessionID) {
	if pd, _ := m.Header.GetBool(43); pd {
		return
	}
	n, _ := m.Header.GetInt(34)
	a.x.mu.Lock()
	if a.x.live {
		a.x.assignedAdmin = append(a.x.assignedAdmin, n)
	}
	a.x.mu.Unlock()
}
func (a *app) ToApp(m *quickfix.Message, _ quickfix.SessionID) error { return nil }
func (a *app) FromAdmin(*quickfix.Message, quickfix.SessionID) quickfix.MessageRejectError {
	return nil
}
func (a *app) FromApp(*quickfix.Message, quickfix.SessionID) quickfix.MessageRejectError { return nil }

// ---- one execution ----

type wireRec struct {
	seq     int
	typ     string
	possDup bool
	stored  bool // at the instant of reception the store returned exactly these bytes under seq
	epoch   int  // store resets seen before this transmission
	raw     []byte
}

type exec struct {
	mu            sync.Mutex // protects the harness's own records in free-running mode
	vs            *quickfix.VerifSession
	base          quickfix.MessageStore
	out           chan []byte
	live          bool
	assignedAdmin []int
	assignedApp   map[string][]int
	sendErrs      []string
	wire          []wireRec
	sendersDone   int32
	startS        int
	persist       bool
	dir           string
	reopen        func() (quickfix.MessageStore, error)
	reopened      [4]int // file store: counters of the live store and of a fresh store opened on its files (S, T, S', T')
	ops           []storeOp
}

var storeDir string // non-empty: file store under this directory

type scenario struct {
	name      string
	senders   []int // sends per sender thread
	session   func(x *exec)
	history   []string // message types sent before the scenario starts (after the Logon), built through the real path
	noPersist bool
	settings  map[string]string // extra session settings (reset options)
}

func inbound(x *exec, typ string, body ...fixscan.Field) {
	f := []fixscan.Field{{Tag: 8, Value: "FIX.4.2"}, {Tag: 35, Value: typ}, {Tag: 34, Value: strconv.Itoa(x.base.NextTargetMsgSeqNum())},
		{Tag: 49, Value: "TW"}, {Tag: 52, Value: fixscan.Stamp(time.Now())}, {Tag: 56, Value: "ISLD"}}
	x.vs.Incoming(quickfix.VerifMkIn(fixscan.Build(append(f, body...)), time.Now()))
}

func setup(sc scenario) *exec {
	x := &exec{assignedApp: map[string][]int{}, persist: !sc.noPersist}
	id := quickfix.SessionID{BeginString: "FIX.4.2", SenderCompID: "ISLD", TargetCompID: "TW"}
	ss := quickfix.NewSessionSettings()
	ss.Set(config.BeginString, "FIX.4.2")
	ss.Set(config.SenderCompID, "ISLD")
	ss.Set(config.TargetCompID, "TW")
	if sc.noPersist {
		ss.Set(config.PersistMessages, "N")
	}
	for k, v := range sc.settings {
		ss.Set(k, v)
	}
	var inner quickfix.MessageStoreFactory = quickfix.NewMemoryStoreFactory()
	if storeDir != "" {
		d, err := os.MkdirTemp(storeDir, "x")
		if err != nil {
			panic(err)
		}
		x.dir = d
		gs := quickfix.NewSettings()
		gs.GlobalSettings().Set(config.FileStorePath, d)
		gs.GlobalSettings().Set(config.FileStoreSync, "N")
		s2 := quickfix.NewSessionSettings()
		s2.Set(config.BeginString, "FIX.4.2")
		s2.Set(config.SenderCompID, "ISLD")
		s2.Set(config.TargetCompID, "TW")
		gs.AddSession(s2)
		inner = filestore.NewStoreFactory(gs)
		x.reopen = func() (quickfix.MessageStore, error) { return filestore.NewStoreFactory(gs).Create(id) }
	}
	vs, err := quickfix.VerifNewSession(false, id, pfactory{inner, &x.base, x}, ss, quickfix.NewNullLogFactory(), &app{x})
	if err != nil {
		panic(err)
	}
	x.vs = vs
	vs.BufferSessionEvents(64)
	vs.SetTimeouts(time.Hour, time.Hour)
	vs.Start()
	// set-up phase in pass-through mode: a temporary reader drains the (unbuffered) outbound channel
	x.out = make(chan []byte)
	in := make(chan quickfix.VerifFixIn, 1)
	stop := make(chan struct{})
	drained := make(chan struct{})
	go func() {
		defer close(drained)
		for {
			select {
			case <-x.out:
			case <-stop:
				return
			}
		}
	}()
	if err := vs.Connect(x.out, in); err != nil {
		panic(err)
	}
	inbound(x, "A", fixscan.Field{Tag: 98, Value: "0"}, fixscan.Field{Tag: 108, Value: "30"})
	for _, h := range sc.history {
		switch h {
		case "D":
			m := quickfix.NewMessage()
			m.Header.SetString(35, "D")
			m.Body.SetString(11, "hist")
			vs.QueueForSend(m)
			// the non-blocking flush succeeds only when the temporary reader is waiting: repeat until delivered
			for vs.Snapshot().ToSend > 0 {
				vs.TakeMessageEvent()
				vs.SendAppMessages()
				runtime.Gosched()
			}
		case "0":
			vs.Timeout(quickfix.VerifNeedHeartbeat)
		}
	}
	close(stop)
	<-drained
	if st := vs.Snapshot(); st.State != "inSession" || st.ToSend != 0 {
		panic("setup did not reach inSession: " + st.State)
	}
	vs.TakeMessageEvent()
	x.startS = x.base.NextSenderMsgSeqNum()
	return x
}

type result struct {
	x       *exec
	choices []int
	points  []vsync.PointInfo
	sched   []string
	dead    bool
	horizon bool
	engine  string
}

// runFree runs the same thread bodies as real goroutines with the shim in pass-through mode (for -race).
func runFree(sc scenario) (res result) {
	return runWith(sc, nil, true)
}

func runOnce(sc scenario, prefix []int) (res result) {
	return runWith(sc, prefix, false)
}

type spawner interface{ Go(name string, f func()) }

type freeSpawner struct{ wg sync.WaitGroup }

func (f *freeSpawner) Go(_ string, fn func()) {
	f.wg.Add(1)
	go func() { defer f.wg.Done(); fn() }()
}

func runWith(sc scenario, prefix []int, free bool) (res result) {
	x := setup(sc)
	res.x = x
	var s *vsync.Sched
	var sp spawner
	fs := &freeSpawner{}
	if free {
		sp = fs
	} else {
		s = vsync.New(prefix)
		s.MaxStep = 4000
		sp = s
	}
	x.mu.Lock()
	x.live = true
	x.mu.Unlock()
	nSenders := len(sc.senders)
	for i, n := range sc.senders {
		name := fmt.Sprintf("app%d", i)
		n := n
		sp.Go(name, func() {
			for k := 0; k < n; k++ {
				m := quickfix.NewMessage()
				m.Header.SetString(35, "D")
				m.Body.SetString(11, fmt.Sprintf("%s-%d", name, k))
				err := x.vs.QueueForSend(m)
				x.mu.Lock()
				if err != nil {
					x.sendErrs = append(x.sendErrs, err.Error())
				} else {
					v, _ := m.Header.GetInt(34)
					x.assignedApp[name] = append(x.assignedApp[name], v)
				}
				x.mu.Unlock()
			}
			atomic.AddInt32(&x.sendersDone, 1)
		})
	}
	sp.Go("session", func() {
		sc.session(x)
		// drain phase: keep serving the flush token until the senders are done and no token is left
		for {
			vsync.Await(func() bool {
				return int(atomic.LoadInt32(&x.sendersDone)) == nSenders || vsync.Len(x.vs.MessageEventChan()) > 0
			})
			if _, ok := vsync.TryRecv(x.vs.MessageEventChan()); ok {
				x.vs.SendAppMessages()
				continue
			}
			break
		}
		if !x.vs.Snapshot().OutNil {
			vsync.Close((chan<- []byte)(x.out))
		}
	})
	sp.Go("writer", func() {
		for {
			b, ok := vsync.Recv(x.out)
			if !ok {
				return
			}
			rec := wireRec{raw: b}
			if m, err := fixscan.Scan(b); err == nil {
				rec.seq, rec.typ, rec.possDup = m.Seq(), m.Type(), m.PossDup()
			}
			if free {
				rec.stored = true // the store is not probed from a second goroutine
			} else if got, err := x.base.GetMessages(rec.seq, rec.seq); err == nil && len(got) == 1 && bytes.Equal(got[0], b) {
				rec.stored = true
			}
			x.mu.Lock()
			for _, o := range x.ops {
				if o.kind == "reset" {
					rec.epoch++
				}
			}
			x.wire = append(x.wire, rec)
			x.mu.Unlock()
		}
	})
	if free {
		fs.wg.Wait()
		return
	}
	func() {
		defer func() {
			if r := recover(); r != nil {
				res.engine = fmt.Sprint(r)
			}
		}()
		s.Run()
	}()
	vsync.S = nil
	if x.dir != "" {
		// what the files say once everything has come to rest: a fresh store opened on them
		x.reopened = [4]int{x.base.NextSenderMsgSeqNum(), x.base.NextTargetMsgSeqNum(), -1, -1}
		if x.reopen != nil {
			if st, err := x.reopen(); err == nil {
				x.reopened[2], x.reopened[3] = st.NextSenderMsgSeqNum(), st.NextTargetMsgSeqNum()
				st.Close()
			}
		}
		x.base.Close()
		os.RemoveAll(x.dir)
	}
	res.choices, res.points, res.sched = s.Choices, s.Points, s.Sched
	res.dead, res.horizon = s.Dead, s.Horizon
	return
}

// ---- oracle ----

func check(sc scenario, r result) (rule, what string) {
	x := r.x
	if r.dead {
		return "C02/R7-deadlock", "no enabled thread while some are unfinished"
	}
	if r.horizon {
		return "C02/R7-livelock", "step horizon reached"
	}
	if len(x.sendErrs) > 0 {
		return "C02/send-error", strings.Join(x.sendErrs, "; ")
	}
	// R9 (file store): the counter files say what the running store says
	if x.dir != "" && x.reopened[2] >= 0 && (x.reopened[0] != x.reopened[2] || x.reopened[1] != x.reopened[3]) {
		return "C02/R9-persisted-counters-differ", fmt.Sprintf("running store: next outbound %d, next inbound %d; a fresh store on the same files: %d, %d", x.reopened[0], x.reopened[1], x.reopened[2], x.reopened[3])
	}
	// R8: whatever is persisted / consumed carries the store's next unused number at that instant; after a reset the
	// numbering restarts at 1 (checked on the store's own order of events, which is the order of the epochs)
	resets := 0
	expect := x.startS
	var saved []int
	for _, o := range x.ops {
		switch o.kind {
		case "reset":
			resets++
			expect = 1
		case "save", "incr":
			if o.n != o.next || o.n != expect {
				return "C02/R8-number-not-the-next-unused", fmt.Sprintf("number %d was persisted when the store's next outbound number was %d (expected %d in this epoch; %d resets before it); store operations: %v", o.n, o.next, expect, resets, opList(x.ops))
			}
			expect++
			saved = append(saved, o.n)
		}
	}
	// R1: numbers handed out (application returns + engine-generated) are startS, startS+1, ... without gap or repeat
	var all []int
	for _, v := range x.assignedApp {
		all = append(all, v...)
	}
	all = append(all, x.assignedAdmin...)
	sort.Ints(all)
	if resets > 0 {
		// with a reset in the execution the numbers handed out are exactly those the store saw, epoch by epoch
		sv := append([]int{}, saved...)
		sort.Ints(sv)
		if fmt.Sprint(sv) != fmt.Sprint(all) {
			return "C02/R1-numbering-across-reset", fmt.Sprintf("numbers handed out %v, numbers persisted %v (store operations %v)", all, sv, opList(x.ops))
		}
		if got := x.base.NextSenderMsgSeqNum(); got != expect {
			return "C02/R5-next-sender", fmt.Sprintf("NextSenderMsgSeqNum %d, expected %d after %v", got, expect, opList(x.ops))
		}
		// wire: increasing inside an epoch
		lastSeq, lastEpoch := 0, -1
		for _, w := range x.wire {
			if w.possDup {
				continue
			}
			if w.epoch == lastEpoch && w.seq <= lastSeq {
				return "C02/R2-wire-order", fmt.Sprintf("first-time transmissions out of order inside one epoch: %v", wireSeqs(x.wire))
			}
			lastSeq, lastEpoch = w.seq, w.epoch
		}
		return "", ""
	}
	for i, n := range all {
		if n != x.startS+i {
			kind := "gap"
			if i > 0 && all[i-1] == n {
				kind = "repeat"
			}
			return "C02/R1-numbering-" + kind, fmt.Sprintf("numbers handed out %v (app %v, engine %v), expected consecutive from %d", all, x.assignedApp, x.assignedAdmin, x.startS)
		}
	}
	// per sender: increasing in program order
	for name, v := range x.assignedApp {
		for i := 1; i < len(v); i++ {
			if v[i] <= v[i-1] {
				return "C02/R1-per-thread-order", fmt.Sprintf("%s got %v", name, v)
			}
		}
	}
	// R2: first-time transmissions strictly increasing; R4 persisted no later than the wire; R6 replay exclusion
	last := 0
	seenFirst := map[int]bool{}
	firstPD, lastPD := -1, -1
	for i, w := range x.wire {
		if w.possDup {
			if firstPD < 0 {
				firstPD = i
			}
			lastPD = i
			continue
		}
		if w.seq <= last {
			return "C02/R2-wire-order", fmt.Sprintf("first-time transmissions out of order: %v", wireSeqs(x.wire))
		}
		last = w.seq
		seenFirst[w.seq] = true
		if x.persist && !w.stored {
			return "C02/R4-not-persisted-before-wire", fmt.Sprintf("message %d reached the wire but the store does not return these bytes under %d", w.seq, w.seq)
		}
	}
	if firstPD >= 0 {
		for i := firstPD; i <= lastPD; i++ {
			if !x.wire[i].possDup {
				return "C02/R6-first-time-message-inside-replay", fmt.Sprintf("wire: %v", wireSeqs(x.wire))
			}
		}
	}
	// R3: still logged on => every number handed out was transmitted
	if st := x.vs.Snapshot(); st.LoggedOn {
		for _, n := range all {
			if !seenFirst[n] {
				return "C02/R3-assigned-not-transmitted", fmt.Sprintf("number %d was handed out but never transmitted (wire %v, queue %d)", n, wireSeqs(x.wire), st.ToSend)
			}
		}
	}
	// R5: next outbound number is one past the highest handed out
	if want := x.startS + len(all); x.base.NextSenderMsgSeqNum() != want {
		return "C02/R5-next-sender", fmt.Sprintf("NextSenderMsgSeqNum %d, expected %d", x.base.NextSenderMsgSeqNum(), want)
	}
	return "", ""
}

func opList(ops []storeOp) []string {
	var o []string
	for _, p := range ops {
		if p.kind == "reset" {
			o = append(o, "reset")
		} else {
			o = append(o, fmt.Sprintf("%s(%d)", p.kind, p.n))
		}
	}
	return o
}

func wireSeqs(w []wireRec) []string {
	var o []string
	for _, r := range w {
		s := fmt.Sprintf("%s#%d", r.typ, r.seq)
		if r.possDup {
			s += "dup"
		}
		o = append(o, s)
	}
	return o
}

func outcome(r result) string {
	return fmt.Sprint(wireSeqs(r.x.wire), r.x.assignedApp, r.x.assignedAdmin)
}

// ---- scenarios ----

var scenarios = []scenario{
	{name: "S1-two-senders", senders: []int{1, 1}, session: func(x *exec) {
		for i := 0; i < 2; i++ {
			if _, ok := vsync.TryRecv(x.vs.MessageEventChan()); ok {
				x.vs.SendAppMessages()
			}
		}
	}},
	{name: "S2-senders-and-heartbeat", senders: []int{2, 1}, session: func(x *exec) {
		x.vs.Timeout(quickfix.VerifNeedHeartbeat)
		if _, ok := vsync.TryRecv(x.vs.MessageEventChan()); ok {
			x.vs.SendAppMessages()
		}
	}},
	{name: "S3-resend-during-sends", senders: []int{2}, history: []string{"D", "0", "D"}, session: func(x *exec) {
		inbound(x, "2", fixscan.Field{Tag: 7, Value: "1"}, fixscan.Field{Tag: 16, Value: "0"})
		if _, ok := vsync.TryRecv(x.vs.MessageEventChan()); ok {
			x.vs.SendAppMessages()
		}
	}},
	{name: "S4-testrequest-and-resend", senders: []int{1, 1}, history: []string{"D", "0"}, session: func(x *exec) {
		inbound(x, "1", fixscan.Field{Tag: 112, Value: "T"})
		inbound(x, "2", fixscan.Field{Tag: 7, Value: "2"}, fixscan.Field{Tag: 16, Value: "0"})
	}},
	{name: "S5-disconnect-during-send", senders: []int{2}, session: func(x *exec) {
		if _, ok := vsync.TryRecv(x.vs.MessageEventChan()); ok {
			x.vs.SendAppMessages()
		}
		x.vs.Disconnected()
	}},
	{name: "S6-three-senders", senders: []int{1, 1, 1}, session: func(x *exec) {}},
	{name: "S7-resend-no-persist", senders: []int{1}, history: []string{"D", "D"}, noPersist: true, session: func(x *exec) {
		inbound(x, "2", fixscan.Field{Tag: 7, Value: "1"}, fixscan.Field{Tag: 16, Value: "0"})
	}},
	{name: "S9-reset-on-logout", senders: []int{1, 1}, settings: map[string]string{config.ResetOnLogout: "Y"}, session: func(x *exec) {
		inbound(x, "5")
	}},
	{name: "S10-reset-on-disconnect", senders: []int{2}, settings: map[string]string{config.ResetOnDisconnect: "Y"}, session: func(x *exec) {
		if _, ok := vsync.TryRecv(x.vs.MessageEventChan()); ok {
			x.vs.SendAppMessages()
		}
		x.vs.Disconnected()
	}},
	{name: "S11-inbound-traffic-during-sends", senders: []int{2}, session: func(x *exec) {
		inbound(x, "0")
		if _, ok := vsync.TryRecv(x.vs.MessageEventChan()); ok {
			x.vs.SendAppMessages()
		}
		inbound(x, "0")
	}},
	{name: "S8-resend-trailing-admin", senders: []int{1}, history: []string{"D", "0", "0"}, session: func(x *exec) {
		inbound(x, "2", fixscan.Field{Tag: 7, Value: "1"}, fixscan.Field{Tag: 16, Value: "0"})
	}},
}

type report struct {
	Scenario   string   `json:"scenario"`
	Bound      int      `json:"bound"`
	Executions int64    `json:"executions"`
	Outcomes   int      `json:"distinct_outcomes"`
	MaxPoints  int      `json:"max_points"`
	Completed  bool     `json:"completed"`
	Rule       string   `json:"rule,omitempty"`
	What       string   `json:"what,omitempty"`
	Choices    []int    `json:"choices,omitempty"`
	Schedule   []string `json:"schedule,omitempty"`
	Engine     string   `json:"engine_error,omitempty"`
	Sample     string   `json:"sample_outcome,omitempty"`
}

func main() {
	scn := flag.String("scenario", "", "scenario name")
	bound := flag.Int("bound", 2, "preemption bound")
	shard := flag.String("shard", "0/1", "level-1 subtree shard i/n")
	replay := flag.String("replay", "", "comma-separated choices to replay")
	budget := flag.Duration("budget", 10*time.Minute, "time budget")
	list := flag.Bool("list", false, "list scenarios")
	flag.StringVar(&storeDir, "filestore", "", "use the file store under this directory instead of the memory store")
	freeN := flag.Int("free", 0, "run the scenario N times free-running (real goroutines, shim in pass-through mode)")
	flag.Parse()
	if *list {
		for _, s := range scenarios {
			fmt.Println(s.name)
		}
		return
	}
	var sc scenario
	for _, s := range scenarios {
		if s.name == *scn {
			sc = s
		}
	}
	if sc.name == "" {
		fmt.Fprintln(os.Stderr, "unknown scenario")
		os.Exit(2)
	}
	enc := json.NewEncoder(os.Stdout)
	if *freeN > 0 {
		rep := report{Scenario: sc.name, Completed: true}
		outs := map[string]bool{}
		for i := 0; i < *freeN; i++ {
			r := runFree(sc)
			rep.Executions++
			outs[outcome(r)] = true
			if rule, what := check(sc, r); rule != "" {
				rep.Rule, rep.What = rule, what
				break
			}
		}
		rep.Outcomes = len(outs)
		enc.Encode(rep)
		if rep.Rule != "" {
			os.Exit(1)
		}
		return
	}
	if *replay != "" {
		var pre []int
		for _, p := range strings.Split(*replay, ",") {
			if p == "" {
				continue
			}
			v, _ := strconv.Atoi(p)
			pre = append(pre, v)
		}
		r := runOnce(sc, pre)
		rule, what := check(sc, r)
		enc.Encode(report{Scenario: sc.name, Executions: 1, Rule: rule, What: what, Choices: r.choices, Schedule: r.sched, Engine: r.engine, Completed: true, Sample: outcome(r)})
		return
	}
	var si, sn int
	fmt.Sscanf(*shard, "%d/%d", &si, &sn)
	// determinism self-test: the default schedule twice
	a, b := runOnce(sc, nil), runOnce(sc, nil)
	if outcome(a) != outcome(b) || fmt.Sprint(a.choices) != fmt.Sprint(b.choices) {
		enc.Encode(report{Scenario: sc.name, Engine: "non-deterministic replay of the default schedule: " + outcome(a) + " vs " + outcome(b)})
		os.Exit(2)
	}
	rep := report{Scenario: sc.name, Bound: *bound, Completed: true}
	outcomes := map[string]bool{}
	deadline := time.Now().Add(*budget)
	top := 0
	var explore func(prefix []int, depth int) bool
	explore = func(prefix []int, depth int) bool {
		if time.Now().After(deadline) {
			rep.Completed = false
			return false
		}
		r := runOnce(sc, prefix)
		if depth >= 2 || si == 0 {
			rep.Executions++
		}
		if r.engine != "" {
			rep.Engine = r.engine
			rep.Choices = r.choices
			return false
		}
		if len(r.points) > rep.MaxPoints {
			rep.MaxPoints = len(r.points)
		}
		o := outcome(r)
		if !outcomes[o] {
			outcomes[o] = true
			if rep.Sample == "" {
				rep.Sample = o
			}
		}
		if rule, what := check(sc, r); rule != "" {
			rep.Rule, rep.What, rep.Choices, rep.Schedule = rule, what, r.choices, r.sched
			return false
		}
		pre := 0
		for i := 0; i < len(r.points); i++ {
			if i >= len(prefix) {
				p := r.points[i]
				cost := pre
				if p.RunningEnabled {
					cost++
				}
				if cost <= *bound {
					for alt := 1; alt < p.NEnabled; alt++ {
						if depth == 1 {
							// level-2 subtrees are distributed over the shards (every shard walks levels 0 and 1)
							top++
							if top%sn != si {
								continue
							}
						}
						np := append(append([]int{}, r.choices[:i]...), alt)
						if !explore(np, depth+1) {
							return false
						}
					}
				}
			}
			if r.points[i].RunningEnabled && r.choices[i] != 0 {
				pre++
			}
		}
		return true
	}
	explore(nil, 0)
	rep.Outcomes = len(outcomes)
	enc.Encode(rep)
	if rep.Engine != "" {
		os.Exit(2)
	}
	if rep.Rule != "" {
		os.Exit(1)
	}
}
