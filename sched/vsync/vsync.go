// Package vsync: cooperative scheduler + sync/channel shim for the schedule engine (Engine B).
// With S == nil every operation passes through to the real primitive (free-running mode, used for the -race pass).
package vsync

import (
	"fmt"
	"reflect"
	"runtime"
	"sync"
)

type opKind int

const (
	opPoint opKind = iota
	opLock
	opRLock
	opSend
	opTrySend
	opRecv
	opStart
	opAwait
)

type thread struct {
	id   int
	name string
	wake chan struct{}
	kind opKind
	mu   *Mutex
	rw   *RWMutex
	ch   *mchan
	done bool
	// recv result
	rval    interface{}
	rok     bool
	rgot    bool
	cond    func() bool
	yielded bool
}

type mchan struct {
	capacity int
	buf      []interface{}
	closed   bool
}

type PointInfo struct {
	NEnabled       int
	RunningEnabled bool
}

type Sched struct {
	threads []*thread
	cur     *thread
	yield   chan struct{}
	chans   map[uintptr]*mchan
	Prefix  []int
	Choices []int
	Points  []PointInfo
	Dead    bool
	Horizon bool
	MaxStep int
	Trace   []string
	Sched   []string // name of the thread chosen at each point
}

var S *Sched

func New(prefix []int) *Sched {
	S = &Sched{yield: make(chan struct{}), chans: map[uintptr]*mchan{}, Prefix: prefix}
	return S
}

func (s *Sched) Go(name string, f func()) {
	t := &thread{id: len(s.threads), name: name, wake: make(chan struct{}), kind: opStart}
	s.threads = append(s.threads, t)
	go func() {
		<-t.wake
		f()
		t.done = true
		s.yield <- struct{}{}
	}()
}

func (s *Sched) chanOf(c interface{}, capacity int) *mchan {
	p := reflect.ValueOf(c).Pointer()
	m, ok := s.chans[p]
	if !ok {
		m = &mchan{capacity: reflect.ValueOf(c).Cap()}
		s.chans[p] = m
	}
	return m
}

func (s *Sched) recvWaiter(ch *mchan) *thread {
	for _, t := range s.threads {
		if !t.done && t != s.cur && t.kind == opRecv && t.ch == ch && !t.rgot {
			return t
		}
	}
	return nil
}

func (s *Sched) enabled(t *thread) bool {
	if t.done {
		return false
	}
	switch t.kind {
	case opLock:
		if t.mu != nil {
			return !t.mu.held
		}
		return !t.rw.w && t.rw.r == 0
	case opRLock:
		return !t.rw.w
	case opSend:
		if t.ch.capacity > 0 {
			return len(t.ch.buf) < t.ch.capacity
		}
		for _, o := range s.threads {
			if o != t && !o.done && o.kind == opRecv && o.ch == t.ch && !o.rgot {
				return true
			}
		}
		return false
	case opAwait:
		return t.cond()
	case opRecv:
		return t.rgot || len(t.ch.buf) > 0 || t.ch.closed
	}
	return true
}

// Run executes until all threads done or deadlock.
func (s *Sched) Run() {
	for {
		var en []*thread
		if s.cur != nil && s.enabled(s.cur) {
			en = append(en, s.cur)
		}
		for _, t := range s.threads {
			if t != s.cur && s.enabled(t) {
				en = append(en, t)
			}
		}
		{
			var ny []*thread
			for _, t := range en {
				if !t.yielded {
					ny = append(ny, t)
				}
			}
			if len(ny) > 0 {
				en = ny
			}
		}
		if len(en) == 0 {
			for _, t := range s.threads {
				if !t.done {
					s.Dead = true
				}
			}
			return
		}
		if s.MaxStep > 0 && len(s.Choices) >= s.MaxStep {
			s.Horizon = true
			return
		}
		i := len(s.Choices)
		c := 0
		if i < len(s.Prefix) {
			c = s.Prefix[i]
			if c >= len(en) {
				panic(fmt.Sprintf("replay divergence at %d: choice %d of %d", i, c, len(en)))
			}
		}
		s.Choices = append(s.Choices, c)
		s.Points = append(s.Points, PointInfo{len(en), s.cur != nil && len(en) > 0 && en[0] == s.cur})
		s.cur = en[c]
		s.Sched = append(s.Sched, s.cur.name)
		for _, t := range s.threads {
			if t != s.cur {
				t.yielded = false
			}
		}
		s.cur.wake <- struct{}{}
		<-s.yield
	}
}

func (s *Sched) park(k opKind, mu *Mutex, rw *RWMutex, ch *mchan) {
	t := s.cur
	t.kind, t.mu, t.rw, t.ch = k, mu, rw, ch
	s.yield <- struct{}{}
	<-t.wake
}

// Yield is a fair yield: the thread is not scheduled again until another enabled thread took a step.
func Yield() {
	if S != nil {
		S.cur.yielded = true
		S.park(opPoint, nil, nil, nil)
	}
}

// Point is a plain scheduling point (the thread stays schedulable).
func Point() {
	if S != nil && S.cur != nil {
		S.park(opPoint, nil, nil, nil)
	}
}

// Note appends to the execution trace (no scheduling point).
func Note(s string) {
	if S != nil {
		S.Trace = append(S.Trace, s)
	}
}

type Mutex struct {
	m    sync.Mutex
	held bool
}

func (m *Mutex) Lock() {
	if S == nil {
		m.m.Lock()
		return
	}
	S.park(opLock, m, nil, nil)
	m.held = true
}
func (m *Mutex) Unlock() {
	if S == nil {
		m.m.Unlock()
		return
	}
	m.held = false
}

type RWMutex struct {
	m sync.RWMutex
	w bool
	r int
}

func (m *RWMutex) Lock() {
	if S == nil {
		m.m.Lock()
		return
	}
	S.park(opLock, nil, m, nil)
	m.w = true
}
func (m *RWMutex) Unlock() {
	if S == nil {
		m.m.Unlock()
		return
	}
	m.w = false
}
func (m *RWMutex) RLock() {
	if S == nil {
		m.m.RLock()
		return
	}
	S.park(opRLock, nil, m, nil)
	m.r++
}
func (m *RWMutex) RUnlock() {
	if S == nil {
		m.m.RUnlock()
		return
	}
	m.r--
}

type Once = sync.Once

func Send[T any](ch chan<- T, v T) {
	if S == nil {
		ch <- v
		return
	}
	mc := S.chanOf(ch, 0)
	S.park(opSend, nil, nil, mc)
	if mc.closed {
		panic("send on closed channel")
	}
	if w := S.recvWaiter(mc); w != nil && mc.capacity == 0 {
		w.rval, w.rok, w.rgot = v, true, true
		return
	}
	mc.buf = append(mc.buf, v)
}

func TrySend[T any](ch chan<- T, v T) bool {
	if S == nil {
		select {
		case ch <- v:
			return true
		default:
			return false
		}
	}
	mc := S.chanOf(ch, 0)
	S.park(opTrySend, nil, nil, mc)
	if mc.closed {
		panic("send on closed channel")
	}
	if mc.capacity == 0 {
		if w := S.recvWaiter(mc); w != nil {
			w.rval, w.rok, w.rgot = v, true, true
			return true
		}
		S.cur.yielded = true
		return false
	}
	if len(mc.buf) < mc.capacity {
		mc.buf = append(mc.buf, v)
		return true
	}
	return false
}

func Close[T any](ch chan<- T) {
	if S == nil {
		close(ch)
		return
	}
	mc := S.chanOf(ch, 0)
	S.park(opPoint, nil, nil, nil)
	mc.closed = true
}

func Recv[T any](ch chan T) (v T, ok bool) {
	if S == nil {
		v, ok = <-ch
		return
	}
	mc := S.chanOf(ch, 0)
	t := S.cur
	t.rgot = false
	S.park(opRecv, nil, nil, mc)
	if t.rgot {
		t.rgot = false
		return t.rval.(T), true
	}
	if len(mc.buf) > 0 {
		x := mc.buf[0]
		mc.buf = mc.buf[1:]
		return x.(T), true
	}
	return v, false
}

func TryRecv[T any](ch chan T) (v T, ok bool) {
	if S == nil {
		select {
		case v, ok = <-ch:
			return
		default:
			return v, false
		}
	}
	mc := S.chanOf(ch, 0)
	S.park(opPoint, nil, nil, nil)
	if len(mc.buf) > 0 {
		x := mc.buf[0]
		mc.buf = mc.buf[1:]
		return x.(T), true
	}
	return v, false
}

func Await(cond func() bool) {
	if S == nil {
		for !cond() {
			runtime.Gosched()
		}
		return
	}
	S.cur.cond = cond
	S.park(opAwait, nil, nil, nil)
}

func Len[T any](ch chan T) int {
	if S == nil {
		return len(ch)
	}
	return len(S.chanOf(ch, 0).buf)
}
