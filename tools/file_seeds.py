#!/usr/bin/env python3
# usage: file_seeds.py <srcroot> <dstroot> <detect.log> — copies confirmed seeds with meta.json
import json, os, re, shutil, sys
src, dst, detlog = sys.argv[1:4]
props = {json.loads(l)['id']: json.loads(l) for l in open('/verif/properties.jsonl')}
det = {}
if os.path.exists(detlog):
    for l in open(detlog):
        parts = l.split()
        if not parts: continue
        m = re.search(r'signature: (.*?)( \.\.\.| exit=)', l)
        det[parts[0]] = {'detected': 'exit=1' in l, 'first_signature': m.group(1).strip() if m else None, 'by': re.search(r'by=(\S+)', l).group(1) if 'by=' in l else None}
n = 0
for pid in sorted(os.listdir(src)):
    if not re.fullmatch(r'C\d\d', pid): continue
    for v in 'AB':
        sd = f'{src}/{pid}/{v}'
        if not os.path.exists(sd + '/patch.diff'): continue
        out = f'{dst}/{pid}/{v}'
        if f'{pid}/{v}' not in det and os.path.exists(out + '/meta.json'): continue  # already filed, not re-tested now
        os.makedirs(out, exist_ok=True)
        patch = 'patch.ported.diff' if os.path.exists(sd + '/patch.ported.diff') else 'patch.diff'
        shutil.copy(f'{sd}/{patch}', out + '/patch.diff')
        shutil.copy(sd + '/demo_test.go', out + '/demo_test.go.txt')
        if os.path.exists(sd + '/notes.md'): shutil.copy(sd + '/notes.md', out + '/notes.md')
        conf = json.load(open(sd + '/confirm.json')) if os.path.exists(sd + '/confirm.json') else {}
        d = det.get(f'{pid}/{v}', {})
        meta = {'property': pid, 'title': props[pid]['title'], 'variant': v,
                'source': 'fresh sub-agent given only the property text and a scratch worktree',
                'confirmation': conf,
                'how_confirmed': 'tools/confirm_seed.sh in a scratch worktree of /repo: patch applies, go build ./..., repository test suite passes with the patch, the demonstration fails with the patch and passes without',
                'detection': {'check': d.get('by') or pid, 'tier': 'quick', 'detected': d.get('detected'), 'first_signature': d.get('first_signature'),
                              'command': f'tools/seedtest.sh {out}/patch.diff {d.get("by") or pid}'}}
        if os.path.exists(sd + '/notes.md'):
            meta['needs_to_manifest'] = ' '.join(open(sd + '/notes.md').read().split())[:700]
        if os.path.exists(sd + '/status.txt'):
            meta['status'] = open(sd + '/status.txt').read().strip()
        json.dump(meta, open(out + '/meta.json', 'w'), indent=1)
        n += 1
print(n, 'seeds filed')
