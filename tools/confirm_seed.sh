#!/bin/bash
# usage: confirm_seed.sh <seed-dir containing patch.diff + demo_test.go> <out.json>
# Confirms in a scratch worktree: patch applies, builds, suite passes, demo fails with patch and passes without.
set -u
export GOFLAGS=-mod=mod GOPROXY=off GOSUMDB=off GOTOOLCHAIN=local
sd="$1"; out="$2"
tag=$(echo "$sd" | tr '/' '_')
wt=/tmp/wtc/$tag
mkdir -p /tmp/wtc
base=HEAD
git -C /repo worktree add -q --detach "$wt" HEAD || exit 2
patch="$sd/patch.diff"
[ -f "$sd/patch.ported.diff" ] && patch="$sd/patch.ported.diff"
if ! git -C "$wt" apply "$patch" 2>/dev/null; then
  git -C /repo worktree remove --force "$wt"
  base=882406a
  git -C /repo worktree add -q --detach "$wt" 882406a || exit 2
  patch="$sd/patch.diff"
  if ! git -C "$wt" apply "$patch"; then echo "{\"applies\":false}" > "$out"; git -C /repo worktree remove --force "$wt"; exit 1; fi
fi
cd "$wt"
build=ok; go build ./... >/dev/null 2>&1 || build=FAIL
suite=$(go test -vet=off -count=1 . ./internal/... ./datadictionary/... ./store/file/... ./store/sql/... ./store/memory/... ./log/file/... ./log/sql/... ./config/... 2>&1 | grep -E "^(FAIL|---)" | head -5 | tr '\n' ';')
[ -z "$suite" ] && suite=ok
demo="$sd/demo_test.go"
pkgline=$(grep -m1 '^package ' "$demo" | awk '{print $2}')
case "$pkgline" in
  quickfix|quickfix_test) dir=. ;;
  file|file_test) dir=store/file ;;
  sql|sql_test) dir=store/sql ;;
  datadictionary|datadictionary_test) dir=datadictionary ;;
  internal|internal_test) dir=internal ;;
  *) dir=. ;;
esac
cp "$demo" "$dir/zz_seed_demo_test.go"
tests=$(grep -oE '^func (Test[A-Za-z0-9_]+)' "$demo" | awk '{print $2}' | paste -sd'|')
with=$(go test -vet=off -count=1 -run "^($tests)\$" ./$dir 2>&1 | tail -1 | awk '{print $1}')
git checkout -q -- .
without=$(go test -vet=off -count=1 -run "^($tests)\$" ./$dir 2>&1 | tail -1 | awk '{print $1}')
cd /
git -C /repo worktree remove --force "$wt"
printf '{"applies":true,"base":"%s","patch":"%s","build":"%s","suite":"%s","demo_pkg":"%s","demo_tests":"%s","demo_with_patch":"%s","demo_without_patch":"%s"}\n' "$base" "$(basename $patch)" "$build" "$suite" "$dir" "$tests" "$with" "$without" > "$out"
cat "$out"
