#!/usr/bin/env python3
# validates MANIFEST.json and every evidence file against the schemas (python3-vt has jsonschema)
import json, jsonschema, glob, sys
ok = True
try:
    jsonschema.validate(json.load(open('/verif/MANIFEST.json')), json.load(open('/root/.vp/MANIFEST.schema.json')))
except Exception as e:
    ok = False; print('MANIFEST invalid:', e)
es = json.load(open('/root/.vp/EVIDENCE.schema.json'))
for f in sorted(glob.glob('/verif/evidence/*.json')):
    try:
        jsonschema.validate(json.load(open(f)), es)
    except Exception as e:
        ok = False; print(f, 'invalid:', str(e)[:300])
print('valid' if ok else 'INVALID')
sys.exit(0 if ok else 1)
