#!/bin/bash
# usage: run_ns.sh <check-id> <tier> <logfile>
# Runs a check on private copies of /repo and /verif (mount namespace), so that editing and rebuilding /verif
# meanwhile cannot disturb it (worker re-exec, conformance build).
set -u
id="$1"; tier="$2"; log="$3"
R=/tmp/ns_repo_$$; V=/tmp/ns_verif_$$
rsync -a --exclude .git /repo/ "$R"/
rsync -a --exclude .git --exclude bin --exclude .scratch --exclude replays /verif/ "$V"/
unshare -m bash -c "mount --bind $R /repo && mount --bind $V /verif && cd /verif && ./vcheck $id --tier $tier" > "$log" 2>&1
rc=$?
echo "exit=$rc" >> "$log"
mkdir -p /verif/replays
cp "$V"/replays/*.json /verif/replays/ 2>/dev/null
rm -rf "$R" "$V"
exit $rc
