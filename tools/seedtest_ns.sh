#!/bin/bash
# usage: seedtest_ns.sh <abs patch.diff> <check-id> [tier]
# Like seedtest.sh, but on private copies of /repo and /verif bound over the real paths inside a mount
# namespace: /repo itself is never touched, so it can run next to other checks (and several at once).
set -u
patch="$1"; id="$2"; tier="${3:-quick}"
R=/tmp/ns_repo_$$; V=/tmp/ns_verif_$$
rsync -a --exclude .git /repo/ "$R"/
rsync -a --exclude .git --exclude bin --exclude .scratch --exclude replays /verif/ "$V"/
log=/tmp/seedtest_ns.$$.log
unshare -m bash -c "mount --bind $R /repo && mount --bind $V /verif && cd /repo && { git apply '$patch' || { echo 'PATCH DOES NOT APPLY'; exit 3; }; } && cd /verif && ./vcheck $id --tier $tier" > "$log" 2>&1
rc=$?
grep -E "^VIOLATION|signature|ENGINE-ERROR|PATCH DOES NOT APPLY" "$log" | head -${SEEDLINES:-6}
tail -1 "$log"
rm -rf "$R" "$V" "$log"
echo "exit=$rc"
