#!/usr/bin/env python3
# usage: tools_manifest_add.py ID engine category "text" "note" "technique" [design_ref]
import json, sys
pid, engine, cat, text, note, tech = sys.argv[1:7]
ref = sys.argv[7] if len(sys.argv) > 7 else f"DESIGN.md §3 {pid}"
m = json.load(open('/verif/MANIFEST.json'))
m['checks'] = [c for c in m['checks'] if c['property_id'] != pid]
m['checks'].append({"property_id": pid, "quick_cmd": f"./vcheck {pid} --tier quick", "thorough_cmd": f"./vcheck {pid} --tier thorough",
  "evidence_file": f"/verif/evidence/{pid}.json", "replay_cmd_template": "./vcheck replay {path}", "engine": engine,
  "level_claimed": {"category": cat, "text": text, "design_ref": ref}, "level_note": note, "technique": tech})
m['checks'].sort(key=lambda c: c['property_id'])
for e in m['engines']:
    if e['name'] == engine and pid not in e['serves_properties']:
        e['serves_properties'].append(pid); e['serves_properties'].sort()
json.dump(m, open('/verif/MANIFEST.json', 'w'), indent=1)
