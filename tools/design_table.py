#!/usr/bin/env python3
# prints the "sizes of the last quick runs" table for DESIGN.md from evidence/*.json
import json, glob
def fmt(n):
    n=int(n)
    if n>=10_000_000: return f"{n/1e6:.0f} M"
    if n>=1_000_000: return f"{n/1e6:.1f} M"
    if n>=10_000: return f"{n/1e3:.0f} k"
    return str(n)
print("| id | tier | evaluations | states | transitions | replayed on the real loop / engines | exhaustive within bounds | wall |")
print("|---|---|---|---|---|---|---|---|")
for f in sorted(glob.glob('/verif/evidence/C*.json')):
    e=json.load(open(f)); c=e['coverage']
    print(f"| {e['property_id']} | {e['tier']} | {fmt(c['evaluations'])} | {fmt(c.get('states',0)) if c.get('states') else '–'} | {fmt(c.get('transitions',0)) if c.get('transitions') else '–'} | {fmt(c.get('traces_validated_against_impl',0)) if c.get('traces_validated_against_impl') else '–'} | {'yes' if c['exhaustive'] else 'no: '+'; '.join(c.get('caps_hit',[]))[:80]} | {e['wall_s']:.0f} s |")
