#!/bin/bash
# usage: ns_exec.sh <abs patch.diff> <command...>   — runs the command in /verif on private copies of /repo (with the
# patch applied) and /verif inside a mount namespace; /repo and /verif themselves are not touched.
set -u
patch="$1"; shift
R=/tmp/ns_repo_$$; V=/tmp/ns_verif_$$
rsync -a --exclude .git /repo/ "$R"/
rsync -a --exclude .git --exclude bin --exclude .scratch --exclude replays /verif/ "$V"/
unshare -m bash -c "mount --bind $R /repo && mount --bind $V /verif && cd /repo && git apply '$patch' && cd /verif && $*"
rc=$?
rm -rf "$R" "$V"
exit $rc
