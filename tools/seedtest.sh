#!/bin/bash
# usage: tools_seedtest.sh <patch.diff> <check-id> [tier]   — applies the patch to /repo, runs the check, reverts.
set -u
patch="$1"; id="$2"; tier="${3:-quick}"
cd /repo || exit 2
if ! git diff --quiet; then echo "repo dirty"; exit 2; fi
if ! git apply "$patch"; then echo "PATCH DOES NOT APPLY"; exit 3; fi
cd /verif
./vcheck "$id" --tier "$tier" > /tmp/seedtest.$$.log 2>&1
rc=$?
grep -E "^VIOLATION|signature|ENGINE-ERROR" /tmp/seedtest.$$.log | head -${SEEDLINES:-6}
tail -1 /tmp/seedtest.$$.log
rm -f /tmp/seedtest.$$.log
git -C /repo checkout -- .
echo "exit=$rc"
