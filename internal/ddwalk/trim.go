package ddwalk

import (
	"bytes"
	"encoding/xml"
	"fmt"
	"io"
)

// Trim returns a specification document that keeps the header, the trailer, the messages whose msgtype is in keep,
// the components those reach (transitively) and the field declarations all of that references. What is kept is
// copied verbatim (attributes and nesting), so the kept definitions mean what they mean in the full file; loading
// it costs a fraction of the full file.
func Trim(r io.Reader, keep map[string]bool) ([]byte, error) {
	var root node
	if err := xml.NewDecoder(r).Decode(&root); err != nil {
		return nil, err
	}
	comps := map[string]*node{}
	if cs := root.child("components"); cs != nil {
		for i := range cs.Children {
			comps[cs.Children[i].attr("name")] = &cs.Children[i]
		}
	}
	usedFields := map[string]bool{}
	usedComps := map[string]bool{}
	var visit func(n *node)
	visit = func(n *node) {
		for i := range n.Children {
			c := &n.Children[i]
			switch c.XMLName.Local {
			case "field":
				usedFields[c.attr("name")] = true
			case "group":
				usedFields[c.attr("name")] = true
				visit(c)
			case "component":
				name := c.attr("name")
				if !usedComps[name] {
					usedComps[name] = true
					if d := comps[name]; d != nil {
						visit(d)
					}
				}
			}
		}
	}
	var out bytes.Buffer
	var write func(n *node, depth int)
	write = func(n *node, depth int) {
		fmt.Fprintf(&out, "<%s", n.XMLName.Local)
		for _, a := range n.Attrs {
			fmt.Fprintf(&out, " %s=\"", a.Name.Local)
			xml.EscapeText(&out, []byte(a.Value))
			out.WriteString("\"")
		}
		if len(n.Children) == 0 {
			out.WriteString("/>\n")
			return
		}
		out.WriteString(">\n")
		for i := range n.Children {
			write(&n.Children[i], depth+1)
		}
		fmt.Fprintf(&out, "</%s>\n", n.XMLName.Local)
	}
	var keptMsgs []*node
	for _, sec := range []string{"header", "trailer"} {
		if s := root.child(sec); s != nil {
			visit(s)
		}
	}
	if ms := root.child("messages"); ms != nil {
		for i := range ms.Children {
			if keep[ms.Children[i].attr("msgtype")] {
				keptMsgs = append(keptMsgs, &ms.Children[i])
				visit(&ms.Children[i])
			}
		}
	}
	fmt.Fprintf(&out, "<fix")
	for _, a := range root.Attrs {
		fmt.Fprintf(&out, " %s=\"%s\"", a.Name.Local, a.Value)
	}
	out.WriteString(">\n")
	for _, sec := range []string{"header", "trailer"} {
		if s := root.child(sec); s != nil {
			write(s, 1)
		}
	}
	out.WriteString("<messages>\n")
	for _, m := range keptMsgs {
		write(m, 2)
	}
	out.WriteString("</messages>\n<components>\n")
	if cs := root.child("components"); cs != nil {
		for i := range cs.Children {
			if usedComps[cs.Children[i].attr("name")] {
				write(&cs.Children[i], 2)
			}
		}
	}
	out.WriteString("</components>\n<fields>\n")
	if fs := root.child("fields"); fs != nil {
		for i := range fs.Children {
			if usedFields[fs.Children[i].attr("name")] {
				write(&fs.Children[i], 2)
			}
		}
	}
	out.WriteString("</fields>\n</fix>\n")
	return out.Bytes(), nil
}
