// Package ddwalk is an independent walk of a FIX specification XML file (encoding/xml into a generic
// tree; own component/group flattening). It shares no code with quickfix/datadictionary.
package ddwalk

import (
	"encoding/xml"
	"fmt"
	"io"
	"sort"
	"strconv"
)

type node struct {
	XMLName  xml.Name
	Attrs    []xml.Attr `xml:",any,attr"`
	Children []node     `xml:",any"`
}

func (n *node) attr(k string) string {
	for _, a := range n.Attrs {
		if a.Name.Local == k {
			return a.Value
		}
	}
	return ""
}

func (n *node) child(name string) *node {
	for i := range n.Children {
		if n.Children[i].XMLName.Local == name {
			return &n.Children[i]
		}
	}
	return nil
}

// Member is one expanded member of a message, component or group.
type Member struct {
	Tag      int
	Name     string
	Required bool     // as declared at this occurrence
	Group    []Member // non-nil (possibly empty) for a repeating group: members in declaration order, components expanded in place
	IsGroup  bool
}

type FieldDecl struct {
	Tag   int
	Name  string
	Type  string
	Enums []string
}

type Msg struct {
	Name     string
	MsgType  string
	Top      []Member     // top level after expanding components (groups kept as one member)
	Required map[int]bool // directly required fields + recursively required fields of required components
	Tags     map[int]bool // everything reachable incl. group members
}

type Spec struct {
	Type, Major, Minor string
	FieldsByName       map[string]*FieldDecl
	FieldsByTag        map[int]*FieldDecl
	Messages           []*Msg
	Header, Trailer    *Msg
	Components         map[string]*node
}

// Parse walks the document. An error is returned for references to undefined fields or components
// (and for cyclic component references).
func Parse(r io.Reader) (*Spec, error) {
	var root node
	if err := xml.NewDecoder(r).Decode(&root); err != nil {
		return nil, err
	}
	s := &Spec{Type: root.attr("type"), Major: root.attr("major"), Minor: root.attr("minor"),
		FieldsByName: map[string]*FieldDecl{}, FieldsByTag: map[int]*FieldDecl{}, Components: map[string]*node{}}
	if fs := root.child("fields"); fs != nil {
		for i := range fs.Children {
			f := &fs.Children[i]
			if f.XMLName.Local != "field" {
				continue
			}
			tag, _ := strconv.Atoi(f.attr("number"))
			d := &FieldDecl{Tag: tag, Name: f.attr("name"), Type: f.attr("type")}
			for j := range f.Children {
				if f.Children[j].XMLName.Local == "value" {
					d.Enums = append(d.Enums, f.Children[j].attr("enum"))
				}
			}
			sort.Strings(d.Enums)
			s.FieldsByName[d.Name] = d
			s.FieldsByTag[d.Tag] = d
		}
	}
	if cs := root.child("components"); cs != nil {
		for i := range cs.Children {
			if cs.Children[i].XMLName.Local == "component" {
				s.Components[cs.Children[i].attr("name")] = &cs.Children[i]
			}
		}
	}
	// every component definition must itself be resolvable
	for name, c := range s.Components {
		if _, err := s.expand(c.Children, map[string]bool{name: true}); err != nil {
			return nil, err
		}
	}
	build := func(n *node) (*Msg, error) {
		m := &Msg{Name: n.attr("name"), MsgType: n.attr("msgtype"), Required: map[int]bool{}, Tags: map[int]bool{}}
		top, err := s.expand(n.Children, map[string]bool{})
		if err != nil {
			return nil, err
		}
		m.Top = top
		var addTags func(ms []Member)
		addTags = func(ms []Member) {
			for _, x := range ms {
				m.Tags[x.Tag] = true
				if x.IsGroup {
					addTags(x.Group)
				}
			}
		}
		addTags(top)
		req, err := s.required(n.Children, map[string]bool{})
		if err != nil {
			return nil, err
		}
		for _, t := range req {
			m.Required[t] = true
		}
		return m, nil
	}
	if ms := root.child("messages"); ms != nil {
		for i := range ms.Children {
			if ms.Children[i].XMLName.Local != "message" {
				continue
			}
			m, err := build(&ms.Children[i])
			if err != nil {
				return nil, fmt.Errorf("message %s: %v", ms.Children[i].attr("name"), err)
			}
			s.Messages = append(s.Messages, m)
		}
	}
	var err error
	if h := root.child("header"); h != nil {
		if s.Header, err = build(h); err != nil {
			return nil, fmt.Errorf("header: %v", err)
		}
	}
	if t := root.child("trailer"); t != nil {
		if s.Trailer, err = build(t); err != nil {
			return nil, fmt.Errorf("trailer: %v", err)
		}
	}
	return s, nil
}

// expand flattens members: components are replaced by their (expanded) members in place; a group stays one member
// whose own members are expanded recursively.
func (s *Spec) expand(children []node, onPath map[string]bool) ([]Member, error) {
	var out []Member
	for i := range children {
		c := &children[i]
		req := c.attr("required") == "Y"
		switch c.XMLName.Local {
		case "field":
			d := s.FieldsByName[c.attr("name")]
			if d == nil {
				return nil, fmt.Errorf("undefined field %q", c.attr("name"))
			}
			out = append(out, Member{Tag: d.Tag, Name: d.Name, Required: req})
		case "group":
			d := s.FieldsByName[c.attr("name")]
			if d == nil {
				return nil, fmt.Errorf("undefined group field %q", c.attr("name"))
			}
			sub, err := s.expand(c.Children, onPath)
			if err != nil {
				return nil, err
			}
			if sub == nil {
				sub = []Member{}
			}
			out = append(out, Member{Tag: d.Tag, Name: d.Name, Required: req, Group: sub, IsGroup: true})
		case "component":
			name := c.attr("name")
			def := s.Components[name]
			if def == nil {
				return nil, fmt.Errorf("undefined component %q", name)
			}
			if onPath[name] {
				return nil, fmt.Errorf("cyclic component %q", name)
			}
			onPath[name] = true
			sub, err := s.expand(def.Children, onPath)
			delete(onPath, name)
			if err != nil {
				return nil, err
			}
			out = append(out, sub...)
		}
	}
	return out, nil
}

// required: directly required fields/groups plus, recursively, the required fields of required components.
func (s *Spec) required(children []node, onPath map[string]bool) ([]int, error) {
	var out []int
	for i := range children {
		c := &children[i]
		if c.attr("required") != "Y" {
			continue
		}
		switch c.XMLName.Local {
		case "field", "group":
			d := s.FieldsByName[c.attr("name")]
			if d == nil {
				return nil, fmt.Errorf("undefined field %q", c.attr("name"))
			}
			out = append(out, d.Tag)
		case "component":
			name := c.attr("name")
			def := s.Components[name]
			if def == nil {
				return nil, fmt.Errorf("undefined component %q", name)
			}
			if onPath[name] {
				return nil, fmt.Errorf("cyclic component %q", name)
			}
			onPath[name] = true
			sub, err := s.required(def.Children, onPath)
			delete(onPath, name)
			if err != nil {
				return nil, err
			}
			out = append(out, sub...)
		}
	}
	return out, nil
}

// RequiredMembers of a group: directly required members plus recursively required fields of required components —
// computed on the raw group node is not possible after expansion, so callers use Member.Required of expanded members
// only for direct fields. (Kept for completeness of the API.)
func SortedKeys(m map[int]bool) []int {
	var out []int
	for k, v := range m {
		if v {
			out = append(out, k)
		}
	}
	sort.Ints(out)
	return out
}
