// Package e2e: two REAL engines — quickfix.Initiator and quickfix.Acceptor with their own goroutines
// (session.run, handleConnection, readLoop, writeLoop, the real EventTimers and ticker) — joined by an
// in-memory network the harness controls frame by frame. Meant to run inside a testing/synctest bubble
// (virtual time): Barrier = synctest.Wait, Sleep = time.Sleep. The harness decides when a frame crosses
// the wire, when the connection is cut (losing whatever is still in flight), when an engine is discarded
// and recreated on its store, and how much (virtual) time passes.
package e2e

import (
	"bytes"
	"context"
	"crypto/tls"
	"errors"
	"fmt"
	"net"
	"strings"
	"sync"
	"time"

	"github.com/quickfixgo/quickfix"
	"github.com/quickfixgo/quickfix/config"
	filestore "github.com/quickfixgo/quickfix/store/file"

	"verif/internal/fixscan"
)

const port = 5001

// ---- the network ----

type tcpConn struct {
	net.Conn
	local, remote int
	l             *link
}

func (c tcpConn) Write(b []byte) (int, error) {
	if c.l != nil {
		c.l.mu.Lock()
		broken := c.l.writeBroken
		c.l.mu.Unlock()
		if broken {
			return 0, errors.New("write: broken pipe")
		}
	}
	return c.Conn.Write(b)
}

func (c tcpConn) LocalAddr() net.Addr { return &net.TCPAddr{IP: net.IPv4(127, 0, 0, 1), Port: c.local} }
func (c tcpConn) RemoteAddr() net.Addr {
	return &net.TCPAddr{IP: net.IPv4(127, 0, 0, 1), Port: c.remote}
}

type link struct {
	ends        [4]net.Conn // iEnd, pI, pA, aEnd
	mu          sync.Mutex
	qIA, qAI    [][]byte
	dead        bool
	writeBroken bool
	closedI     bool // the initiator / the acceptor has closed its end; frames it wrote before are still deliverable
	closedA     bool
}

func (l *link) kill() {
	l.mu.Lock()
	l.dead = true
	l.qIA, l.qAI = nil, nil
	l.mu.Unlock()
	for _, c := range l.ends {
		c.Close()
	}
}

// pump reads complete FIX frames from one engine's side of the link into a queue.
func (l *link) pump(from net.Conn, toA bool, n *Net) {
	var buf []byte
	tmp := make([]byte, 65536)
	for {
		k, err := from.Read(tmp)
		buf = append(buf, tmp[:k]...)
		for {
			i := bytes.Index(buf, []byte("\x0110="))
			if i < 0 {
				break
			}
			j := bytes.IndexByte(buf[i+1:], 1)
			if j < 0 {
				break
			}
			end := i + 1 + j + 1
			f := append([]byte{}, buf[:end]...)
			buf = buf[end:]
			l.mu.Lock()
			dead := l.dead
			if !l.dead {
				if toA {
					l.qIA = append(l.qIA, f)
				} else {
					l.qAI = append(l.qAI, f)
				}
			}
			l.mu.Unlock()
			if !dead {
				st := n.stamp(f, toA)
				n.mu.Lock()
				n.Events = append(n.Events, st)
				n.mu.Unlock()
			}
		}
		if err != nil {
			// the engine closed its end: the other side sees the close, what is in flight is lost
			l.mu.Lock()
			already := l.dead
			l.mu.Unlock()
			if !already {
				n.mu.Lock()
				n.Closes = append(n.Closes, Close{T: n.Now(), FromI: toA})
				n.mu.Unlock()
			}
			// what this engine wrote before closing still reaches the other one (which then sees the close); what was
			// on its way to this engine is lost
			l.mu.Lock()
			pending := 0
			if toA {
				l.closedI, l.qAI = true, nil
				pending = len(l.qIA)
			} else {
				l.closedA, l.qIA = true, nil
				pending = len(l.qAI)
			}
			both := l.closedI && l.closedA
			l.mu.Unlock()
			if pending == 0 || both || already {
				l.kill()
			}
			return
		}
	}
}

// Net is listener (acceptor side) and dialer (initiator side) in one.
type Net struct {
	mu       sync.Mutex
	accept   chan net.Conn
	closed   bool
	cur      *link
	allow    bool // dials are refused until the script asks for a connection
	holdToA  bool // frames toward the acceptor / the initiator stay in flight (a silent network, not a cut)
	holdToI  bool
	start    time.Time
	Events   []Stamp // every frame an engine transmitted (Rx false) or was handed (Rx true), in the order it happened
	Closes   []Close // connection ends: who closed (an engine or the harness) and when
	connNo   int     // connections established so far
	Dials    int
	Refused  int
	connSeen int
}

func NewNet() *Net { return &Net{start: time.Now()} }

// Stamp: one frame on the wire with its (virtual) instant.
type Stamp struct {
	T     time.Duration
	Conn  int  // number of the connection (1, 2, ...) the frame travelled on
	Rx    bool // false: the frame left an engine; true: the frame was handed to an engine
	FromI bool // the frame travels from the initiator to the acceptor
	Type  string
	HB    int    // HeartBtInt(108) of a Logon
	ID    string // TestReqID(112)
	Seq   int
	Dup   bool
}

// Close: the connection ended at T; ByHarness for a cut, otherwise the engine on side FromI closed its end.
type Close struct {
	T         time.Duration
	ByHarness bool
	FromI     bool
}

// Now is the virtual time since the network was created.
func (n *Net) Now() time.Duration { return time.Since(n.start) }

func (n *Net) stamp(f []byte, fromI bool) Stamp {
	st := Stamp{T: n.Now(), FromI: fromI, Conn: n.connNo}
	if m, err := fixscan.Scan(f); err == nil {
		st.Type, st.Seq, st.Dup = m.Type(), m.Seq(), m.PossDup()
		st.ID, _ = m.Get(112)
		st.HB, _ = m.Int(108)
	}
	return st
}

// Hold keeps frames toward one engine in flight (on) or lets them through again (off).
func (n *Net) Hold(toA, on bool) {
	n.mu.Lock()
	if toA {
		n.holdToA = on
	} else {
		n.holdToI = on
	}
	n.mu.Unlock()
}

// Held tells whether frames toward that engine are being held.
func (n *Net) Held(toA bool) bool {
	n.mu.Lock()
	defer n.mu.Unlock()
	if toA {
		return n.holdToA
	}
	return n.holdToI
}

// Listen is the acceptor's NewListenerCallback.
func (n *Net) Listen(address string, _ *tls.Config) (net.Listener, error) {
	n.mu.Lock()
	defer n.mu.Unlock()
	n.accept = make(chan net.Conn)
	n.closed = false
	return &listener{n: n, ch: n.accept, done: make(chan struct{})}, nil
}

type listener struct {
	n    *Net
	ch   chan net.Conn
	done chan struct{}
	once sync.Once
}

func (l *listener) Accept() (net.Conn, error) {
	select {
	case c := <-l.ch:
		return c, nil
	case <-l.done:
		return nil, errors.New("listener closed")
	}
}
func (l *listener) Close() error {
	l.once.Do(func() {
		close(l.done)
		l.n.mu.Lock()
		if l.n.accept == l.ch {
			l.n.closed = true
		}
		l.n.mu.Unlock()
	})
	return nil
}
func (l *listener) Addr() net.Addr { return &net.TCPAddr{IP: net.IPv4(127, 0, 0, 1), Port: port} }

// DialContext implements proxy.ContextDialer for the initiator.
func (n *Net) DialContext(ctx context.Context, network, addr string) (net.Conn, error) {
	n.mu.Lock()
	ch, closed := n.accept, n.closed || !n.allow
	n.Dials++
	n.mu.Unlock()
	if ch == nil || closed {
		n.mu.Lock()
		n.Refused++
		n.mu.Unlock()
		return nil, errors.New("connection refused")
	}
	c1, c2 := net.Pipe()
	c3, c4 := net.Pipe()
	l := &link{}
	l.ends = [4]net.Conn{c1, c2, c3, c4}
	aEnd := tcpConn{c4, port, 40000, l}
	select {
	case ch <- aEnd:
	case <-ctx.Done():
		l.kill()
		return nil, ctx.Err()
	case <-time.After(time.Second):
		l.kill()
		return nil, errors.New("connection timed out")
	}
	n.mu.Lock()
	if n.cur != nil {
		n.cur.kill()
	}
	n.cur = l
	n.connNo++
	n.mu.Unlock()
	go l.pump(c2, true, n)
	go l.pump(c3, false, n)
	return tcpConn{c1, 40000, port, l}, nil
}

func (n *Net) link() *link {
	n.mu.Lock()
	defer n.mu.Unlock()
	if n.cur != nil {
		n.cur.mu.Lock()
		d := n.cur.dead
		n.cur.mu.Unlock()
		if d {
			n.cur = nil
		}
	}
	return n.cur
}

// Up tells whether a connection exists.
func (n *Net) Up() bool { return n.link() != nil }

// Pending returns the number of frames in flight in each direction.
func (n *Net) Pending() (toA, toI int) {
	l := n.link()
	if l == nil {
		return 0, 0
	}
	l.mu.Lock()
	defer l.mu.Unlock()
	return len(l.qIA), len(l.qAI)
}

// Forward lets the oldest frame in flight in one direction reach the other engine. Returns the frame (nil: none).
func (n *Net) Forward(toA bool) []byte {
	l := n.link()
	if l == nil {
		return nil
	}
	l.mu.Lock()
	var f []byte
	var dst net.Conn
	if toA {
		if len(l.qIA) > 0 {
			f, l.qIA = l.qIA[0], l.qIA[1:]
		}
		dst = l.ends[2]
	} else {
		if len(l.qAI) > 0 {
			f, l.qAI = l.qAI[0], l.qAI[1:]
		}
		dst = l.ends[1]
	}
	l.mu.Unlock()
	if f == nil {
		return nil
	}
	st := n.stamp(f, toA)
	st.Rx = true
	n.mu.Lock()
	n.Events = append(n.Events, st)
	n.mu.Unlock()
	if _, err := dst.Write(f); err != nil {
		l.kill()
	}
	// the last frame of an engine that has closed its end is through: the other one now sees the close
	l.mu.Lock()
	done := (toA && l.closedI && len(l.qIA) == 0) || (!toA && l.closedA && len(l.qAI) == 0)
	l.mu.Unlock()
	if done {
		l.kill()
	}
	return f
}

// Allow lets the initiator's next dial succeed (or not).
func (n *Net) Allow(b bool) {
	n.mu.Lock()
	n.allow = b
	n.mu.Unlock()
}

// BreakWrites makes every further write of both engines fail while what is in flight can still be handed to them:
// the way a connection dies when the first thing an engine notices is a failing write (peer reset) rather than the
// end of its read side.
func (n *Net) BreakWrites() {
	if l := n.link(); l != nil {
		l.mu.Lock()
		l.writeBroken = true
		l.mu.Unlock()
	}
}

// Cut drops the connection; in-flight frames of both directions are lost. No new connection until allowed.
func (n *Net) Cut() {
	n.Allow(false)
	if l := n.link(); l != nil {
		n.mu.Lock()
		n.Closes = append(n.Closes, Close{T: n.Now(), ByHarness: true})
		n.mu.Unlock()
		l.kill()
	}
}

// ---- the applications ----

type app struct {
	mu           sync.Mutex
	Delivered    []string
	Logons       int
	Logouts      int
	on           bool // an initiator is also told OnLogout when a logon attempt fails: counting would drift
	now          func() time.Duration
	Busy         time.Duration // the next FromApp keeps the session's goroutine busy for this long
	BusyLog      [][2]time.Duration
	OutsideLogon []string // application messages handed over outside the OnLogon..OnLogout interval
	DoubleLogout int      // OnLogout without a logged-on period to end (acceptor side; an initiator is told of failed logon attempts too)
	LogonAt      []time.Duration
	LogoutAt     []time.Duration
}

func (a *app) OnCreate(quickfix.SessionID) {}
func (a *app) OnLogon(quickfix.SessionID) {
	a.mu.Lock()
	a.Logons++
	a.on = true
	if a.now != nil {
		a.LogonAt = append(a.LogonAt, a.now())
	}
	a.mu.Unlock()
}
func (a *app) OnLogout(quickfix.SessionID) {
	a.mu.Lock()
	a.Logouts++
	if a.now != nil && a.on {
		a.LogoutAt = append(a.LogoutAt, a.now())
	}
	a.on = false
	a.mu.Unlock()
}
func (a *app) ToAdmin(*quickfix.Message, quickfix.SessionID)     {}
func (a *app) ToApp(*quickfix.Message, quickfix.SessionID) error { return nil }
func (a *app) FromAdmin(*quickfix.Message, quickfix.SessionID) quickfix.MessageRejectError {
	return nil
}
func (a *app) FromApp(m *quickfix.Message, _ quickfix.SessionID) quickfix.MessageRejectError {
	id, _ := m.Body.GetString(11)
	a.mu.Lock()
	a.Delivered = append(a.Delivered, id)
	if !a.on {
		a.OutsideLogon = append(a.OutsideLogon, id)
	}
	busy := a.Busy
	a.Busy = 0
	k := -1
	if busy > 0 && a.now != nil {
		// recorded when it begins (open-ended), closed when it ends
		a.BusyLog = append(a.BusyLog, [2]time.Duration{a.now(), 1 << 62})
		k = len(a.BusyLog) - 1
	}
	a.mu.Unlock()
	if busy > 0 {
		time.Sleep(busy) // (virtual time inside a bubble)
		a.mu.Lock()
		if k >= 0 {
			a.BusyLog[k][1] = a.now()
		}
		a.mu.Unlock()
	}
	return nil
}

// SetBusy: the next FromApp keeps the session's goroutine busy for d.
func (a *app) SetBusy(d time.Duration) {
	a.mu.Lock()
	a.Busy = d
	a.mu.Unlock()
}

func (a *app) delivered() []string {
	a.mu.Lock()
	defer a.mu.Unlock()
	return append([]string{}, a.Delivered...)
}
func (a *app) loggedOn() bool {
	a.mu.Lock()
	defer a.mu.Unlock()
	return a.on
}

// ---- the system ----

// Ctl: the bubble's barrier (all goroutines durably blocked) and its sleep.
type Ctl struct {
	Barrier func()
	Sleep   func(time.Duration)
}

type Sys struct {
	ctl          Ctl
	Net          *Net
	begin        string
	dir          string // "" = memory stores
	tag          string // makes the CompIDs unique per scenario (the session registry is global)
	ini          *quickfix.Initiator
	acc          *quickfix.Acceptor
	AppI, AppA   *app
	SentI, SentA []string
	nI, nA       int
	Trace        []string
	HB           int // the initiator's HeartBtInt (announced in its Logon)
	AccHB        int // > 0: the acceptor is configured with HeartBtIntOverride=Y and this interval
}

func (s *Sys) idI() quickfix.SessionID {
	return quickfix.SessionID{BeginString: s.begin, SenderCompID: "I" + s.tag, TargetCompID: "A" + s.tag}
}
func (s *Sys) idA() quickfix.SessionID {
	return quickfix.SessionID{BeginString: s.begin, SenderCompID: "A" + s.tag, TargetCompID: "I" + s.tag}
}

func (s *Sys) settings(initiator bool) *quickfix.Settings {
	st := quickfix.NewSettings()
	g := st.GlobalSettings()
	if s.dir != "" {
		g.Set(config.FileStorePath, s.dir)
	}
	ss := quickfix.NewSessionSettings()
	ss.Set(config.BeginString, s.begin)
	if initiator {
		ss.Set(config.SenderCompID, "I"+s.tag)
		ss.Set(config.TargetCompID, "A"+s.tag)
		ss.Set(config.SocketConnectHost, "127.0.0.1")
		ss.Set(config.SocketConnectPort, fmt.Sprint(port))
		ss.Set(config.HeartBtInt, fmt.Sprint(s.HB))
		ss.Set(config.ReconnectInterval, "2")
	} else {
		ss.Set(config.SenderCompID, "A"+s.tag)
		ss.Set(config.TargetCompID, "I"+s.tag)
		ss.Set(config.SocketAcceptPort, fmt.Sprint(port))
		if s.AccHB > 0 {
			ss.Set(config.HeartBtIntOverride, "Y")
			ss.Set(config.HeartBtInt, fmt.Sprint(s.AccHB))
		}
	}
	if _, err := st.AddSession(ss); err != nil {
		panic(err)
	}
	return st
}

func (s *Sys) storeFactory(initiator bool) quickfix.MessageStoreFactory {
	if s.dir == "" {
		return quickfix.NewMemoryStoreFactory()
	}
	return filestore.NewStoreFactory(s.settings(initiator))
}

func (s *Sys) startI() error {
	ini, err := quickfix.NewInitiator(s.AppI, s.storeFactory(true), s.settings(true), quickfix.NewNullLogFactory())
	if err != nil {
		return err
	}
	s.ini = ini
	ini.VerifStartWithDialer(s.Net)
	return nil
}

func (s *Sys) startA() error {
	acc, err := quickfix.NewAcceptor(s.AppA, s.storeFactory(false), s.settings(false), quickfix.NewNullLogFactory())
	if err != nil {
		return err
	}
	acc.SetNewListenerCallback(s.Net.Listen)
	s.acc = acc
	return acc.Start()
}

// New builds both engines (acceptor first) and lets the initiator make its first connection attempt.
func New(ctl Ctl, begin, dir, tag string) (*Sys, error) { return NewHB(ctl, begin, dir, tag, 30, 0) }

// NewHB: with the initiator's heartbeat interval and, if accHB > 0, an acceptor that overrides it.
func NewHB(ctl Ctl, begin, dir, tag string, hb, accHB int) (*Sys, error) {
	s := &Sys{ctl: ctl, Net: NewNet(), begin: begin, dir: dir, tag: tag, AppI: &app{}, AppA: &app{}, HB: hb, AccHB: accHB}
	s.AppI.now, s.AppA.now = s.Net.Now, s.Net.Now
	if err := s.startA(); err != nil {
		return nil, err
	}
	if err := s.startI(); err != nil {
		s.acc.Stop()
		return nil, err
	}
	ctl.Barrier()
	return s, nil
}

// Close stops both engines; all their goroutines end.
func (s *Sys) Close() {
	s.Net.Allow(false)
	s.Net.Cut()
	s.ctl.Barrier()
	s.drainLogonTimers()
	if s.ini != nil {
		s.ini.Stop()
	}
	if s.acc != nil {
		s.acc.Stop()
	}
	s.Net.Cut()
	s.ctl.Barrier()
}

// drainLogonTimers: an initiator's connect arms time.AfterFunc(LogonTimeout, send on the unbuffered sessionEvent
// channel); if the run loop has ended by then that goroutine blocks for ever (a goroutine leak of the library,
// fatal in a bubble). With the link down, let the default LogonTimeout (10 s) pass before an engine is stopped.
func (s *Sys) drainLogonTimers() {
	s.ctl.Sleep(11 * time.Second)
	s.ctl.Barrier()
	// a session that is still inside an application callback has not noticed the end of the connection yet: stopped
	// now it would initiate a logout, whose LogoutTimeout timer (same pattern) outlives the run loop
	for i := 0; i < 200 && (s.AppI.loggedOn() || s.AppA.loggedOn()); i++ {
		s.ctl.Sleep(time.Second)
		s.ctl.Barrier()
	}
}

func (s *Sys) note(f string, a ...any) { s.Trace = append(s.Trace, fmt.Sprintf(f, a...)) }

// Connect waits (virtual time) until the initiator has a connection; false if it never gets one.
func (s *Sys) Connect() bool {
	s.Net.Allow(true)
	for i := 0; i < 40 && !s.Net.Up(); i++ {
		s.ctl.Sleep(500 * time.Millisecond)
		s.ctl.Barrier()
	}
	if s.Net.Up() {
		s.note("connect")
	}
	return s.Net.Up()
}

// Step: one atomic action of the default schedule (as Pair.Step of the model): connect when down, else let one
// frame cross (initiator→acceptor first unless swap). Returns false when nothing is left to do.
func (s *Sys) Step(swap bool) bool {
	if !s.Net.Up() {
		return s.Connect()
	}
	a, b := s.Net.Pending()
	toA := true
	switch {
	case a > 0 && b > 0 && swap:
		toA = false
	case a > 0:
	case b > 0:
		toA = false
	default:
		return false
	}
	f := s.Net.Forward(toA)
	s.ctl.Barrier()
	if m, err := fixscan.Scan(f); err == nil {
		s.note("deliver %s#%d %v toA=%v", m.Type(), m.Seq(), m.PossDup(), toA)
	} else {
		s.note("deliver unscannable frame toA=%v", toA)
	}
	return true
}

// ForwardOne lets the oldest frame in flight in the given direction cross; false if there is none.
func (s *Sys) ForwardOne(toA bool) bool {
	f := s.Net.Forward(toA)
	s.ctl.Barrier()
	if f == nil {
		return false
	}
	if m, err := fixscan.Scan(f); err == nil {
		s.note("deliver %s#%d %v toA=%v", m.Type(), m.Seq(), m.PossDup(), toA)
	} else {
		s.note("deliver unscannable frame toA=%v", toA)
	}
	return true
}

func (s *Sys) CanSwap() bool {
	a, b := s.Net.Pending()
	return s.Net.Up() && a > 0 && b > 0
}

// Send submits an application message through the public API (SendToTarget).
func (s *Sys) Send(onI bool) {
	var id string
	var sid quickfix.SessionID
	if onI {
		s.nI++
		id, sid = fmt.Sprintf("I-%d", s.nI), s.idI()
	} else {
		s.nA++
		id, sid = fmt.Sprintf("A-%d", s.nA), s.idA()
	}
	m := quickfix.NewMessage()
	m.Header.SetString(35, "D")
	m.Body.SetString(11, id)
	m.Body.SetString(55, "X")
	err := quickfix.SendToTarget(m, sid)
	s.ctl.Barrier()
	s.note("send %s", id)
	if err == nil {
		if onI {
			s.SentI = append(s.SentI, id)
		} else {
			s.SentA = append(s.SentA, id)
		}
	} else {
		s.note("send refused: %v", err)
	}
}

func (s *Sys) Cut() {
	s.note("cut")
	s.Net.Cut()
	s.ctl.Barrier()
}

// CutWritesFirst: the connection dies with the writes failing first — both engines still get what was in flight
// (and try to answer it into the broken connection), then the connection ends for good.
func (s *Sys) CutWritesFirst() {
	s.note("cut (writes fail first)")
	s.Net.Allow(false)
	s.Net.BreakWrites()
	s.Flow(200)
	s.Net.Cut()
	s.ctl.Barrier()
}

// Restart discards one engine and recreates it on its persistent store.
func (s *Sys) Restart(onI bool) error {
	// no new connection while the engine is being replaced (the initiator redials on its own as soon as it may)
	s.Net.Allow(false)
	if s.Net.Up() {
		s.Cut()
	}
	s.note("restart I=%v", onI)
	s.drainLogonTimers()
	if onI {
		s.ini.Stop()
		s.ctl.Barrier()
		return s.startI()
	}
	s.acc.Stop()
	s.ctl.Barrier()
	return s.startA()
}

// Flow hands over every frame in flight in the directions that are not held, until nothing more moves.
func (s *Sys) Flow(max int) bool {
	for i := 0; i < max; i++ {
		if !s.Net.Up() {
			return true
		}
		a, b := s.Net.Pending()
		switch {
		case a > 0 && !s.Net.Held(true):
			s.ForwardOne(true)
		case b > 0 && !s.Net.Held(false):
			s.ForwardOne(false)
		default:
			return true
		}
	}
	return false
}

// RestartInitiatorHB discards the initiator and recreates it on its store with another heartbeat interval.
func (s *Sys) RestartInitiatorHB(hb int) error {
	s.HB = hb
	return s.Restart(true)
}

// Quiesce runs the default schedule until nothing is in flight.
func (s *Sys) Quiesce(max int) bool {
	for i := 0; i < max; i++ {
		if !s.Step(false) {
			return true
		}
	}
	return false
}

// Idle lets d of virtual time pass in slices, delivering whatever the engines transmit meanwhile (so no
// silent-peer timer fires because of the harness).
func (s *Sys) Idle(d time.Duration) bool {
	slice := time.Duration(s.HB) * time.Second / 4
	for t := time.Duration(0); t < d; t += slice {
		s.ctl.Sleep(slice)
		s.ctl.Barrier()
		if !s.Quiesce(400) {
			return false
		}
	}
	return true
}

func (s *Sys) Delivered() (atA, atI []string) { return s.AppA.delivered(), s.AppI.delivered() }
func (s *Sys) LoggedOn() bool                 { return s.AppA.loggedOn() && s.AppI.loggedOn() }

// Subsequence: got is a duplicate-free, order-preserving subsequence of sent.
func Subsequence(got, sent []string) bool {
	j := 0
	for _, g := range got {
		for j < len(sent) && sent[j] != g {
			j++
		}
		if j == len(sent) {
			return false
		}
		j++
	}
	return true
}

// Safety: nothing delivered that was not sent, nothing twice, nothing out of order.
func (s *Sys) Safety() (string, string) {
	a, i := s.Delivered()
	if !Subsequence(a, s.SentI) {
		return "acceptor-delivery-not-a-subsequence", fmt.Sprintf("acceptor's application received %v, initiator accepted %v", a, s.SentI)
	}
	if !Subsequence(i, s.SentA) {
		return "initiator-delivery-not-a-subsequence", fmt.Sprintf("initiator's application received %v, acceptor accepted %v", i, s.SentA)
	}
	return "", ""
}

// Converge: keep the link up for a few heartbeat intervals; then everything accepted must have been delivered.
func (s *Sys) Converge() (string, string) {
	eq := func(a, b []string) bool { return strings.Join(a, ",") == strings.Join(b, ",") }
	for round := 0; round < 5; round++ {
		if !s.Quiesce(400) {
			return "no-quiescence", "the engines kept transmitting for 400 frames"
		}
		if r, w := s.Safety(); r != "" {
			return r, w
		}
		a, i := s.Delivered()
		if eq(a, s.SentI) && eq(i, s.SentA) && s.LoggedOn() {
			return "", ""
		}
		if !s.Idle(time.Duration(s.HB) * time.Second) {
			return "no-quiescence", "the engines kept transmitting for 400 frames"
		}
	}
	a, i := s.Delivered()
	return "not-delivered-after-heartbeats", fmt.Sprintf("link up for 5 heartbeat intervals: acceptor received %v of %v, initiator received %v of %v (logged on: %v)", a, s.SentI, i, s.SentA, s.LoggedOn())
}
