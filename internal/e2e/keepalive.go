package e2e

import (
	"fmt"
	"time"
)

// JudgeKeepAlive evaluates the keep-alive clauses of the statement on what the two real engines did, for each
// logged-on period of each side, from the stamped wire log (virtual time, exact):
//
//	R1 a TestRequest handed to X is answered by X's Heartbeat carrying its TestReqID (as soon as X's goroutine is free)
//	R2 X lets no heartbeat interval pass without transmitting, unless its own TestRequest is unanswered
//	R3 when X has been handed nothing for 1.2 intervals it transmits a TestRequest at that instant, and only then
//	R4 after another 1.2 silent intervals X ends the connection and tells its application; X never ends it otherwise
//	R5 anything handed to X in between cancels the pending disconnect
//
// A deadline that falls while X's goroutine is inside an application callback moves to the end of that callback.
func (s *Sys) JudgeKeepAlive(end time.Duration) (rule, what string) {
	for _, isI := range []bool{true, false} {
		if r, w := s.judgeSide(isI, end); r != "" {
			return r, w
		}
	}
	return "", ""
}

func (s *Sys) judgeSide(isI bool, end time.Duration) (string, string) {
	side, ap := "acceptor", s.AppA
	if isI {
		side, ap = "initiator", s.AppI
	}
	ap.mu.Lock()
	logons := append([]time.Duration{}, ap.LogonAt...)
	logouts := append([]time.Duration{}, ap.LogoutAt...)
	busy := append([][2]time.Duration{}, ap.BusyLog...)
	ap.mu.Unlock()
	s.Net.mu.Lock()
	evs := append([]Stamp{}, s.Net.Events...)
	closes := append([]Close{}, s.Net.Closes...)
	s.Net.mu.Unlock()
	// a deadline inside a busy interval moves to its end; a frame handed over during one is processed at its end
	due := func(d time.Duration) time.Duration {
		for moved := true; moved; {
			moved = false
			for _, b := range busy {
				if d >= b[0] && d < b[1] { // (callbacks may follow each other back to back: the select may serve either first)
					d, moved = b[1], true
				}
			}
		}
		return d
	}
	for k, t0 := range logons {
		t1, ended := end, false
		if k < len(logouts) {
			t1, ended = logouts[k], true
		}
		// the interval in force: an initiator uses its configuration, an acceptor the interval announced in the
		// Logon it received on this connection unless it overrides it
		hb := 0
		var lastSend, lastRecv time.Duration
		// the period begins with the peer's Logon being handed to X (the last one at or before the notification);
		// what follows in the log — also at the same instant — belongs to the period
		first := 0
		for i, e := range evs {
			if e.T > t0 {
				break
			}
			if e.Rx && e.FromI != isI && e.Type == "A" {
				first = i + 1
			}
		}
		for _, e := range evs[:first] {
			mine := e.FromI == isI
			if !e.Rx && mine {
				lastSend = e.T
				if e.Type == "A" && isI {
					hb = e.HB
				}
			}
			if e.Rx && !mine {
				lastRecv = e.T
				if e.Type == "A" && !isI {
					hb = e.HB
				}
			}
		}
		if !isI && s.AccHB > 0 {
			hb = s.AccHB
		}
		if hb <= 0 {
			return "C20/E-engine", fmt.Sprintf("%s: no Logon seen before the logon notification at %v", side, t0)
		}
		HB := time.Duration(hb) * time.Second
		peerInt := time.Duration(float64(1.2) * float64(HB))
		pending := false
		var pendSince, hbFloor time.Duration
		ctx := func() string {
			return fmt.Sprintf("%s, logged on at %v, interval %v: last transmission %v, last reception %v, test request pending %v since %v", side, t0, HB, lastSend, lastRecv, pending, pendSince)
		}
		// deadlines that must not be missed before instant t (strictly)
		check := func(t time.Duration) (string, string) {
			if !pending {
				d := lastSend + HB
				if hbFloor > d {
					d = hbFloor
				}
				if due(d) < t {
					return "C20/E-R2-no-heartbeat-when-due side=" + side, fmt.Sprintf("nothing transmitted by %v (now %v) | %s", due(d), t, ctx())
				}
				if q := due(lastRecv + peerInt); q < t {
					return "C20/E-R3-no-testrequest-on-silence side=" + side, fmt.Sprintf("nothing received for 1.2 intervals at %v and no TestRequest transmitted (now %v) | %s", q, t, ctx())
				}
			} else if q := due(pendSince + peerInt); q < t {
				return "C20/E-R4-no-disconnect-after-second-silence side=" + side, fmt.Sprintf("the TestRequest of %v stayed unanswered until %v and the connection was not ended (now %v) | %s", pendSince, q, t, ctx())
			}
			return "", ""
		}
		comps := []time.Duration{lastRecv}
		// when the goroutine of X has finished with each frame handed to it: frames are served in order; an order whose
		// callback was told to take its time occupies the goroutine for one recorded busy interval
		var loopFree time.Duration
		completion := func(e Stamp) time.Duration {
			start := e.T
			if loopFree > start {
				start = loopFree
			}
			done := start
			if e.Type == "D" {
				for _, b := range busy {
					if b[0] == start {
						done = b[1]
					}
				}
			}
			loopFree = done
			return done
		}
		type owed struct {
			id string
			at time.Duration
		}
		var answers []owed
		recovering := false // X has asked for a resend in this period
		if lastSend < t0 {
			// the clauses speak of the logged-on period: the first heartbeat interval is counted from its beginning at
			// the latest (the acceptor's Logon reply follows at once; an initiator's Logon may be much older)
			lastSend = t0
		}
		for _, e := range evs[first:] {
			if e.T > t1 {
				break
			}
			mine := e.FromI == isI
			switch {
			case !e.Rx && mine: // X transmits
				if r, w := check(e.T); r != "" {
					return r, w
				}
				if e.Type == "1" {
					// justified by a reception r after which nothing was processed for 1.2 intervals; the timer that
					// fires while the goroutine is inside a callback is served when the callback returns, even if that
					// very callback was the processing of a newer frame (a fired timer cannot be recalled)
					ok := false
					for j, r := range comps {
						if e.T < r+peerInt || e.T > due(r+peerInt) {
							continue
						}
						ok = true
						for _, r2 := range comps[j+1:] {
							if r2 < r+peerInt {
								ok = false
							}
						}
						if ok {
							break
						}
					}
					if pending || !ok {
						return "C20/E-R3-testrequest-not-due side=" + side, fmt.Sprintf("TestRequest transmitted at %v; receptions processed at %v | %s", e.T, comps, ctx())
					}
					pending, pendSince = true, e.T
				}
				if e.Type == "2" {
					recovering = true
				}
				if e.Type == "0" && e.ID != "" {
					for i, a := range answers {
						if a.id == e.ID {
							if e.T != a.at {
								return "C20/E-R1-testrequest-answered-late side=" + side, fmt.Sprintf("TestRequest %q processed at %v, answered at %v", a.id, a.at, e.T)
							}
							answers = append(answers[:i], answers[i+1:]...)
							break
						}
					}
				}
				lastSend = e.T
			case e.Rx && !mine: // X is handed a frame (processed when its goroutine is free)
				c := completion(e)
				if r, w := check(c); r != "" {
					return r, w
				}
				lastRecv = c
				comps = append(comps, c)
				if pending {
					pending = false
					hbFloor = c
				}
				if e.Type == "1" && !e.Dup && c < t1 && !recovering {
					// (the clause is about a TestRequest received in sequence: while X recovers a gap the request may be
					// kept and answered later, which the model part judges with sequence numbers at hand)
					answers = append(answers, owed{e.ID, c})
				}
			}
		}
		if r, w := check(t1); r != "" {
			return r, w
		}
		for _, a := range answers {
			if a.at < t1 {
				return "C20/E-R1-testrequest-not-answered side=" + side, fmt.Sprintf("TestRequest %q processed at %v: no Heartbeat with that TestReqID transmitted by %v | %s", a.id, a.at, t1, ctx())
			}
		}
		if ended {
			// who ended the connection? X itself only after two silent intervals
			for _, c := range closes {
				if c.T == t1 && !c.ByHarness && c.FromI == isI {
					if !pending || t1 != due(pendSince+peerInt) {
						return "C20/E-R4-disconnect-not-due side=" + side, fmt.Sprintf("%s ended the connection at %v | %s", side, t1, ctx())
					}
				}
			}
		}
	}
	return "", ""
}

// KeepAliveOutcome summarises what happened (message types transmitted per side, logons, logouts): used to count
// how many different behaviours the scripts produced.
func (s *Sys) KeepAliveOutcome() [6]int {
	var o [6]int
	s.Net.mu.Lock()
	for _, e := range s.Net.Events {
		if e.Rx {
			continue
		}
		k := 0
		if !e.FromI {
			k = 2
		}
		switch e.Type {
		case "0":
			o[k]++
		case "1":
			o[k+1]++
		}
	}
	s.Net.mu.Unlock()
	s.AppI.mu.Lock()
	o[4] = len(s.AppI.LogoutAt)
	s.AppI.mu.Unlock()
	s.AppA.mu.Lock()
	o[5] = len(s.AppA.LogoutAt)
	s.AppA.mu.Unlock()
	return o
}
