package e2e

import "fmt"

// JudgeLifecycle evaluates, on what the two real engines did, the clauses about connections and logged-on periods:
//
//	R1 the first frame an engine transmits on a connection is a Logon or a Logout
//	R2 no application message is transmitted for the first time before the engine's logon notification on that
//	   connection or after the engine has sent its Logout on it
//	R3 no application message is handed to the application outside the OnLogon..OnLogout interval
//	R4 when no connection is left (final=true: the harness has ended the last one and everything has come to rest)
//	   neither application is still inside a logged-on period
func (s *Sys) JudgeLifecycle(final bool) (rule, what string) {
	s.Net.mu.Lock()
	evs := append([]Stamp{}, s.Net.Events...)
	s.Net.mu.Unlock()
	for _, isI := range []bool{true, false} {
		side, ap := "acceptor", s.AppA
		if isI {
			side, ap = "initiator", s.AppI
		}
		ap.mu.Lock()
		logons := append([]int64{}, durs(ap.LogonAt)...)
		outside := append([]string{}, ap.OutsideLogon...)
		on := ap.on
		ap.mu.Unlock()
		if len(outside) > 0 {
			return "R3-fromapp-outside-logon side=" + side, fmt.Sprintf("the %s's application was handed %v outside the OnLogon..OnLogout interval", side, outside)
		}
		first := map[int]bool{}
		sentLogout := map[int]bool{}
		for _, e := range evs {
			if e.Rx || e.FromI != isI {
				continue
			}
			if !first[e.Conn] {
				first[e.Conn] = true
				if e.Type != "A" && e.Type != "5" {
					return "R1-first-frame-not-logon side=" + side, fmt.Sprintf("the first frame the %s transmitted on connection %d is 35=%s#%d", side, e.Conn, e.Type, e.Seq)
				}
			}
			admin := len(e.Type) == 1 && (e.Type[0] >= '0' && e.Type[0] <= '5' || e.Type == "A")
			if !admin && !e.Dup {
				if sentLogout[e.Conn] {
					return "R2-app-message-after-logout side=" + side, fmt.Sprintf("application message #%d transmitted for the first time on connection %d after the %s's Logout", e.Seq, e.Conn, side)
				}
				logged := false
				for _, t := range logons {
					if t <= int64(e.T) {
						logged = true
					}
				}
				if !logged {
					return "R2-app-message-before-logon side=" + side, fmt.Sprintf("application message #%d transmitted for the first time at %v before any logon notification of the %s", e.Seq, e.T, side)
				}
			}
			if e.Type == "5" {
				sentLogout[e.Conn] = true
			}
		}
		if final && on {
			return "R4-no-logout-notification side=" + side, fmt.Sprintf("every connection has ended and everything has come to rest, but the %s's application was never told that its logged-on period ended", side)
		}
	}
	return "", ""
}

func durs[T ~int64](x []T) []int64 {
	o := make([]int64, len(x))
	for i, v := range x {
		o[i] = int64(v)
	}
	return o
}
