package core

import (
	"bufio"
	"encoding/json"
	"fmt"
	"os"
	"os/exec"
	"strconv"
	"strings"
	"sync"
	"time"
)

// Worker protocol (stdout lines of a worker sub-process):
//   P <idx>      progress: all cases below idx are done (printed every few thousand cases)
//   C <idx>      announce mode: case idx is about to run
//   V <json>     a violation {Sig, What, Kind, Data}
//   R <json>     final result {Evals, Distinct, Samples, Counters}
// A worker that dies or hangs without R is re-run in announce mode from its last progress index so
// that the fatal case is attributed exactly; exploration then continues after that case.

type WorkerViolation struct {
	Sig  string
	What string
	Kind string
	Data json.RawMessage
}

type WorkerResult struct {
	Evals    int64
	Distinct int64
	Samples  []any
	Counters map[string]int64
	Hashes   []uint64 // optional distinct-case hashes (merged across shards when present)
}

// WorkerOut is used inside a worker process.
type WorkerOut struct {
	w  *bufio.Writer
	mu sync.Mutex
}

func NewWorkerOut() *WorkerOut { return &WorkerOut{w: bufio.NewWriterSize(os.Stdout, 1<<16)} }
func (o *WorkerOut) Progress(idx int64) {
	o.mu.Lock()
	fmt.Fprintf(o.w, "P %d\n", idx)
	o.w.Flush()
	o.mu.Unlock()
}

// ProgressCounts also reports cumulative counts so that they survive a crash of the worker.
func (o *WorkerOut) ProgressCounts(idx, evals, distinct int64) {
	o.mu.Lock()
	fmt.Fprintf(o.w, "P %d %d %d\n", idx, evals, distinct)
	o.w.Flush()
	o.mu.Unlock()
}
func (o *WorkerOut) Announce(idx int64) {
	o.mu.Lock()
	fmt.Fprintf(o.w, "C %d\n", idx)
	o.w.Flush()
	o.mu.Unlock()
}
func (o *WorkerOut) Violation(v WorkerViolation) {
	b, _ := json.Marshal(v)
	o.mu.Lock()
	fmt.Fprintf(o.w, "V %s\n", b)
	o.w.Flush()
	o.mu.Unlock()
}
func (o *WorkerOut) Result(r WorkerResult) {
	b, _ := json.Marshal(r)
	o.mu.Lock()
	fmt.Fprintf(o.w, "R %s\n", b)
	o.w.Flush()
	o.mu.Unlock()
}

// RunWorkers runs `vcheck worker <name> <args...> --shard i/n` for i in [0,n) in parallel and merges.
// fatalKind is the replay kind used for cases that kill or hang a worker; describe maps a case index of
// a shard to replay data for such a case (called in the parent, so it must be cheap and deterministic).
func RunWorkers(c *Ctx, name string, args []string, n int, fatalKind string, describe func(shard int, idx int64) (what string, data any)) {
	var wg sync.WaitGroup
	sem := make(chan struct{}, n)
	var mu sync.Mutex
	hashes := map[uint64]struct{}{}
	for i := 0; i < n; i++ {
		wg.Add(1)
		go func(shard int) {
			defer wg.Done()
			sem <- struct{}{}
			defer func() { <-sem }()
			from := int64(0)
			announce := false
			announceLeft := int64(0)
			for attempt := 0; attempt < 64; attempt++ {
				a := append([]string{"worker", name}, args...)
				a = append(a, "--shard", fmt.Sprintf("%d/%d", shard, n), "--from", strconv.FormatInt(from, 10))
				if announce {
					a = append(a, "--announce", strconv.FormatInt(announceLeft, 10))
				}
				if c.Tier != "" {
					a = append(a, "--tier", c.Tier)
				}
				res, lastP, lastC, done, why := runOne(c, a)
				mu.Lock()
				if res != nil {
					c.AddEval(res.Evals)
					c.DistinctN(res.Distinct)
					for _, h := range res.Hashes {
						hashes[h] = struct{}{}
					}
					for k, v := range res.Counters {
						c.AddCounter(k, v)
					}
					for _, s := range res.Samples {
						c.Sample(s)
					}
				}
				mu.Unlock()
				if done {
					return
				}
				if why == "deadline" {
					c.Cap("internal time budget reached (worker stopped)")
					return
				}
				// died or hung
				if !announce {
					announce, from, announceLeft = true, lastP, 8192
					continue
				}
				// in announce mode: lastC is the culprit
				if lastC < 0 {
					c.EngineError(fmt.Sprintf("worker %s shard %d died (%s) before announcing a case", name, shard, why))
					return
				}
				what, data := describe(shard, lastC)
				c.Violation("C09/fatal-"+why+" "+what, fmt.Sprintf("worker process %s on case #%d of shard %d: %s", why, lastC, shard, what), fatalKind, data)
				from, announce = lastC+1, false
			}
		}(i)
	}
	wg.Wait()
	c.DistinctN(int64(len(hashes)))
}

func runOne(c *Ctx, args []string) (res *WorkerResult, lastP, lastC int64, done bool, why string) {
	lastC = -1
	var partial *WorkerResult
	cmd := exec.Command(os.Args[0], args...)
	cmd.Stderr = nil
	out, err := cmd.StdoutPipe()
	if err != nil {
		return nil, 0, -1, false, "spawn"
	}
	if err := cmd.Start(); err != nil {
		return nil, 0, -1, false, "spawn"
	}
	lines := make(chan string, 1024)
	go func() {
		sc := bufio.NewScanner(out)
		sc.Buffer(make([]byte, 1<<20), 64<<20)
		for sc.Scan() {
			lines <- sc.Text()
		}
		close(lines)
	}()
	watchdog := 90 * time.Second
	timer := time.NewTimer(watchdog)
	defer timer.Stop()
	for {
		select {
		case ln, ok := <-lines:
			if !ok {
				err := cmd.Wait()
				if res != nil && err == nil {
					if why == "deadline" {
						return res, lastP, lastC, false, "deadline"
					}
					return res, lastP, lastC, true, ""
				}
				if res == nil {
					res = partial
				}
				return res, lastP, lastC, false, "crash"
			}
			if !timer.Stop() {
				select {
				case <-timer.C:
				default:
				}
			}
			timer.Reset(watchdog)
			switch {
			case strings.HasPrefix(ln, "P "):
				parts := strings.Fields(ln[2:])
				lastP, _ = strconv.ParseInt(parts[0], 10, 64)
				if len(parts) == 3 {
					pe, _ := strconv.ParseInt(parts[1], 10, 64)
					pd, _ := strconv.ParseInt(parts[2], 10, 64)
					partial = &WorkerResult{Evals: pe, Distinct: pd}
				}
			case strings.HasPrefix(ln, "C "):
				lastC, _ = strconv.ParseInt(ln[2:], 10, 64)
			case strings.HasPrefix(ln, "V "):
				var v WorkerViolation
				if json.Unmarshal([]byte(ln[2:]), &v) == nil {
					c.Violation(v.Sig, v.What, v.Kind, v.Data)
				}
			case strings.HasPrefix(ln, "R "):
				var r WorkerResult
				if json.Unmarshal([]byte(ln[2:]), &r) == nil {
					res = &r
				}
			case strings.HasPrefix(ln, "D"):
				why = "deadline"
			}
		case <-timer.C:
			cmd.Process.Kill()
			cmd.Wait()
			if res == nil {
				res = partial
			}
			return res, lastP, lastC, false, "hang"
		}
	}
}

// ParseWorkerArgs extracts the standard flags.
type WorkerArgs struct {
	Shard, Shards int
	From          int64
	Announce      int64
	Tier          string
	Rest          []string
}

func ParseWorkerArgs(args []string) WorkerArgs {
	wa := WorkerArgs{Shards: 1, Tier: "quick"}
	for i := 0; i < len(args); i++ {
		switch args[i] {
		case "--shard":
			fmt.Sscanf(args[i+1], "%d/%d", &wa.Shard, &wa.Shards)
			i++
		case "--from":
			wa.From, _ = strconv.ParseInt(args[i+1], 10, 64)
			i++
		case "--announce":
			wa.Announce, _ = strconv.ParseInt(args[i+1], 10, 64)
			i++
		case "--tier":
			wa.Tier = args[i+1]
			i++
		default:
			wa.Rest = append(wa.Rest, args[i])
		}
	}
	return wa
}
