// Package core: evidence, violations, known findings, scratch space — shared by all checks.
package core

import (
	"bufio"
	"crypto/sha1"
	"encoding/hex"
	"encoding/json"
	"fmt"
	"os"
	"path/filepath"
	"sort"
	"strconv"
	"strings"
	"sync"
	"time"
)

const VerifDir = "/verif"

// Levels as in EVIDENCE.schema.json.
const (
	LevelExploration = "exploration"
	LevelFault       = "fault_enumeration"
	LevelMC          = "model_checking"
)

// Replay is the serialised, explorer-free form of one failing case.
type Replay struct {
	Property  string          `json:"property"`
	Kind      string          `json:"kind"`
	Signature string          `json:"signature"`
	What      string          `json:"what"`
	Data      json.RawMessage `json:"data"`
}

// ReplayFunc re-executes a case on the current tree; returns whether it violates and a description.
type ReplayFunc func(data json.RawMessage) (violated bool, what string, err error)

var (
	replayMu    sync.Mutex
	replayFuncs = map[string]ReplayFunc{}
	replayMin   = map[string]int{} // kinds that run real goroutines: re-executions (of 5) that must fail again
)

// RegisterReplayThreads registers the driver of a kind whose executions run the real goroutines of the library
// (scheduled by the Go runtime inside a virtual-time bubble). The oracle of such a kind does not depend on the
// schedule, but a defect may: a case found by the search and failing again in at least minFails of the 5
// re-executions is reported (with the count).
func RegisterReplayThreads(kind string, minFails int, f ReplayFunc) {
	RegisterReplay(kind, f)
	replayMu.Lock()
	replayMin[kind] = minFails
	replayMu.Unlock()
}

// RegisterReplay registers the sequential driver for a replay kind ("C01/seq", ...).
func RegisterReplay(kind string, f ReplayFunc) {
	replayMu.Lock()
	defer replayMu.Unlock()
	replayFuncs[kind] = f
}

func LookupReplay(kind string) ReplayFunc {
	replayMu.Lock()
	defer replayMu.Unlock()
	return replayFuncs[kind]
}

type finding struct {
	Status    string `json:"status"`
	Property  string `json:"property"`
	Signature string `json:"signature,omitempty"`
	Commit    string `json:"commit,omitempty"`
	What      string `json:"what"`
}

// Ctx is one run of one check.
type Ctx struct {
	Property string
	Tier     string
	Seed     int64
	Level    string
	Start    time.Time
	Deadline time.Time // soft internal deadline; hitting it => exhaustive:false, exit 0

	mu            sync.Mutex
	evaluations   int64
	distinct      map[[8]byte]struct{}
	distinctExtra int64
	states        int64
	transitions   int64
	tracesVal     int64
	rule          string
	samples       []any
	assumptions   []string
	extra         map[string]any
	exhaustive    bool
	caps          []string
	known         map[string]finding // signature -> finding
	knownSeen     map[string]string
	violations    map[string]*Replay // signature -> first replay
	violOrder     []string
	engineErrs    []string
}

func NewCtx(prop, tier, level string) *Ctx {
	seed := int64(1)
	if s := os.Getenv("VERIF_SEED"); s != "" {
		if v, err := strconv.ParseInt(s, 10, 64); err == nil {
			seed = v
		}
	}
	c := &Ctx{Property: prop, Tier: tier, Seed: seed, Level: level, Start: time.Now(),
		distinct: map[[8]byte]struct{}{}, extra: map[string]any{}, exhaustive: true,
		known: map[string]finding{}, knownSeen: map[string]string{}, violations: map[string]*Replay{}}
	c.loadKnown()
	return c
}

func (c *Ctx) Quick() bool { return c.Tier != "thorough" }

func (c *Ctx) loadKnown() {
	f, err := os.Open(filepath.Join(VerifDir, "known_findings.jsonl"))
	if err != nil {
		return
	}
	defer f.Close()
	sc := bufio.NewScanner(f)
	sc.Buffer(make([]byte, 1<<20), 1<<20)
	for sc.Scan() {
		line := strings.TrimSpace(sc.Text())
		if line == "" || strings.HasPrefix(line, "#") {
			continue
		}
		var fd finding
		if json.Unmarshal([]byte(line), &fd) != nil {
			continue
		}
		if fd.Status == "known" && fd.Property == c.Property && fd.Signature != "" {
			c.known[fd.Signature] = fd
		}
	}
}

// SetDeadline sets the soft deadline for this run.
func (c *Ctx) SetDeadline(d time.Duration) {
	// VERIF_DEADLINE_SCALE (development aid): run a tier under a shorter or longer internal budget
	if f, err := strconv.ParseFloat(os.Getenv("VERIF_DEADLINE_SCALE"), 64); err == nil && f > 0 {
		d = time.Duration(float64(d) * f)
	}
	c.Deadline = c.Start.Add(d)
}

// Expired reports whether the soft deadline passed (and records the cap).
func (c *Ctx) Expired() bool {
	if c.Deadline.IsZero() || time.Now().Before(c.Deadline) {
		return false
	}
	c.Cap("internal time budget reached")
	return true
}

func (c *Ctx) Cap(what string) {
	c.mu.Lock()
	defer c.mu.Unlock()
	c.exhaustive = false
	for _, x := range c.caps {
		if x == what {
			return
		}
	}
	c.caps = append(c.caps, what)
}

func (c *Ctx) AddEval(n int64) { c.mu.Lock(); c.evaluations += n; c.mu.Unlock() }

// Distinct counts key as one distinct non-trivial case (deduplicated by hash).
func (c *Ctx) Distinct(key string) {
	h := sha1.Sum([]byte(key))
	var k [8]byte
	copy(k[:], h[:8])
	c.mu.Lock()
	c.distinct[k] = struct{}{}
	c.mu.Unlock()
}

// DistinctN adds n cases already known to be pairwise distinct and disjoint from hashed ones.
func (c *Ctx) DistinctN(n int64) { c.mu.Lock(); c.distinctExtra += n; c.mu.Unlock() }
func (c *Ctx) AddStates(n int64) { c.mu.Lock(); c.states += n; c.mu.Unlock() }
func (c *Ctx) AddTransitions(n int64) {
	c.mu.Lock()
	c.transitions += n
	c.mu.Unlock()
}
func (c *Ctx) AddTraces(n int64) { c.mu.Lock(); c.tracesVal += n; c.mu.Unlock() }
func (c *Ctx) SetRule(r string)  { c.rule = r }
func (c *Ctx) Assume(a ...string) {
	c.mu.Lock()
	c.assumptions = append(c.assumptions, a...)
	c.mu.Unlock()
}
func (c *Ctx) Set(k string, v any) { c.mu.Lock(); c.extra[k] = v; c.mu.Unlock() }
func (c *Ctx) AddCounter(k string, n int64) {
	c.mu.Lock()
	if v, ok := c.extra[k].(int64); ok {
		c.extra[k] = v + n
	} else {
		c.extra[k] = n
	}
	c.mu.Unlock()
}

// Sample keeps up to 12 samples (first few, then seed-selected).
func (c *Ctx) Sample(s any) {
	c.mu.Lock()
	defer c.mu.Unlock()
	if len(c.samples) < 12 {
		c.samples = append(c.samples, s)
	}
}

func (c *Ctx) NumSamples() int { c.mu.Lock(); defer c.mu.Unlock(); return len(c.samples) }

func (c *Ctx) EngineError(msg string) {
	c.mu.Lock()
	c.engineErrs = append(c.engineErrs, msg)
	c.mu.Unlock()
}

// Violation records a failing case. signature identifies the rule+minimal context; the case is
// suppressed (reported as KNOWN-FINDING) only if that exact signature is listed.
func (c *Ctx) Violation(signature, what, kind string, data any) {
	c.mu.Lock()
	defer c.mu.Unlock()
	if _, ok := c.known[signature]; ok {
		if _, seen := c.knownSeen[signature]; !seen {
			c.knownSeen[signature] = what
		}
		return
	}
	if _, ok := c.violations[signature]; ok {
		return
	}
	raw, _ := json.Marshal(data)
	c.violations[signature] = &Replay{Property: c.Property, Kind: kind, Signature: signature, What: what, Data: raw}
	c.violOrder = append(c.violOrder, signature)
}

func (c *Ctx) NumViolations() int { c.mu.Lock(); defer c.mu.Unlock(); return len(c.violations) }

// IsKnown tells whether a signature is listed (for checks that want to skip expensive confirmation).
func (c *Ctx) IsKnown(signature string) bool { _, ok := c.known[signature]; return ok }

// Finish confirms violations by re-execution, writes evidence and replay files, prints verdict lines
// and returns the process exit code.
func (c *Ctx) Finish() int {
	defer RunAtExit()
	wall := time.Since(c.Start).Seconds()
	confirmed := []*Replay{}
	for _, sig := range c.violOrder {
		r := c.violations[sig]
		f := LookupReplay(r.Kind)
		if f == nil {
			c.engineErrs = append(c.engineErrs, "no replay driver for kind "+r.Kind)
			continue
		}
		fails := 0
		var lastErr error
		for i := 0; i < 5; i++ {
			v, _, err := f(r.Data)
			if err != nil {
				lastErr = err
			}
			if v {
				fails++
			}
		}
		replayMu.Lock()
		min, threads := replayMin[r.Kind]
		replayMu.Unlock()
		switch {
		case fails == 5:
			confirmed = append(confirmed, r)
		case threads && fails >= min && lastErr == nil:
			r.What = fmt.Sprintf("(depends on the schedule of the library's own goroutines: failed again in %d of 5 re-executions) %s", fails, r.What)
			confirmed = append(confirmed, r)
		default:
			c.engineErrs = append(c.engineErrs, fmt.Sprintf("violation %q not reproducible (%d/5 re-executions failed, err=%v): %s", r.Signature, fails, lastErr, r.What))
		}
	}
	// evidence
	cov := map[string]any{}
	for k, v := range c.extra {
		cov[k] = v
	}
	distinct := int64(len(c.distinct)) + c.distinctExtra
	cov["evaluations"] = c.evaluations
	cov["distinct_nontrivial"] = distinct
	cov["rule"] = c.rule
	if len(c.samples) == 0 {
		c.samples = append(c.samples, "(none recorded)")
	}
	cov["samples"] = c.samples
	cov["exhaustive"] = c.exhaustive
	if len(c.caps) > 0 {
		cov["caps_hit"] = c.caps
	}
	if c.Level == LevelMC {
		cov["states"] = c.states
		cov["transitions"] = c.transitions
		cov["traces_validated_against_impl"] = c.tracesVal
	} else if c.states > 0 {
		cov["states"] = c.states
		cov["transitions"] = c.transitions
	}
	knownList := []string{}
	for sig := range c.knownSeen {
		knownList = append(knownList, sig)
	}
	sort.Strings(knownList)
	if len(knownList) > 0 {
		cov["known_findings_observed"] = knownList
	}
	ev := map[string]any{
		"property_id": c.Property, "tier": c.Tier, "seed": c.Seed, "level": c.Level,
		"coverage": cov, "assumptions": c.assumptions, "wall_s": wall, "violations": len(confirmed),
	}
	if len(c.engineErrs) > 0 {
		ev["engine_errors"] = c.engineErrs
	}
	if c.assumptions == nil {
		ev["assumptions"] = []string{}
	}
	os.MkdirAll(filepath.Join(VerifDir, "evidence"), 0o755)
	b, _ := json.MarshalIndent(ev, "", " ")
	evPath := filepath.Join(VerifDir, "evidence", c.Property+".json")
	if err := os.WriteFile(evPath, append(b, '\n'), 0o644); err != nil {
		fmt.Fprintln(os.Stderr, "ENGINE-ERROR: cannot write evidence:", err)
		return 2
	}
	for _, sig := range knownList {
		fmt.Printf("KNOWN-FINDING: property=%s %s — %s\n", c.Property, sig, c.known[sig].What)
	}
	fmt.Printf("%s tier=%s evaluations=%d distinct=%d states=%d transitions=%d traces_validated=%d exhaustive=%v wall=%.1fs\n",
		c.Property, c.Tier, c.evaluations, distinct, c.states, c.transitions, c.tracesVal, c.exhaustive, wall)
	for _, e := range c.engineErrs {
		fmt.Fprintln(os.Stderr, "ENGINE-ERROR:", e)
	}
	if len(confirmed) > 0 {
		os.MkdirAll(filepath.Join(VerifDir, "replays"), 0o755)
		if os.Getenv("VERIF_ALLSIGS") != "" {
			for _, r := range confirmed {
				b, _ := json.Marshal(map[string]string{"status": "known", "property": c.Property, "signature": r.Signature, "what": r.What})
				fmt.Println("SIG " + string(b))
			}
		}
		for i, r := range confirmed {
			if i >= 25 {
				fmt.Printf("... %d further distinct violation signatures not written\n", len(confirmed)-i)
				break
			}
			h := sha1.Sum([]byte(r.Signature))
			p := filepath.Join(VerifDir, "replays", fmt.Sprintf("%s-%s.json", c.Property, hex.EncodeToString(h[:5])))
			rb, _ := json.MarshalIndent(r, "", " ")
			os.WriteFile(p, append(rb, '\n'), 0o644)
			fmt.Printf("  signature: %s\n  what: %s\n", r.Signature, r.What)
			fmt.Printf("VIOLATION property=%s replay=%s\n", c.Property, p)
		}
		return 1
	}
	if len(c.engineErrs) > 0 {
		return 2
	}
	return 0
}

var (
	atExitMu sync.Mutex
	atExit   []func()
)

// AtExit registers a cleanup that Finish / RunReplayFile run before the process ends.
func AtExit(f func()) { atExitMu.Lock(); atExit = append(atExit, f); atExitMu.Unlock() }

// RunAtExit runs (once) what AtExit registered.
func RunAtExit() {
	atExitMu.Lock()
	fs := atExit
	atExit = nil
	atExitMu.Unlock()
	for _, f := range fs {
		f()
	}
}

// Scratch returns a fresh scratch directory on tmpfs (removed by cleanup).
func Scratch(prefix string) (dir string, cleanup func()) {
	base := "/dev/shm"
	if st, err := os.Stat(base); err != nil || !st.IsDir() {
		base = os.TempDir()
	}
	d, err := os.MkdirTemp(base, "verif-"+prefix+"-")
	if err != nil {
		d, err = os.MkdirTemp("", "verif-"+prefix+"-")
		if err != nil {
			panic(err)
		}
	}
	return d, func() { os.RemoveAll(d) }
}

// RunReplayFile re-executes a replay file once and prints the outcome; exit code 1 if it violates.
func RunReplayFile(path string) int {
	defer RunAtExit()
	b, err := os.ReadFile(path)
	if err != nil {
		fmt.Fprintln(os.Stderr, "ENGINE-ERROR:", err)
		return 2
	}
	var r Replay
	if err := json.Unmarshal(b, &r); err != nil {
		fmt.Fprintln(os.Stderr, "ENGINE-ERROR:", err)
		return 2
	}
	f := LookupReplay(r.Kind)
	if f == nil {
		fmt.Fprintln(os.Stderr, "ENGINE-ERROR: unknown replay kind", r.Kind)
		return 2
	}
	v, what, err := f(r.Data)
	if err != nil {
		fmt.Fprintln(os.Stderr, "ENGINE-ERROR:", err)
		return 2
	}
	if v {
		fmt.Printf("replay violates: %s\nVIOLATION property=%s replay=%s\n", what, r.Property, path)
		return 1
	}
	fmt.Println("replay holds on current tree")
	return 0
}
