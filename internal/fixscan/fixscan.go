// Package fixscan is an independent tag=value scanner and builder (shares no code with quickfix).
package fixscan

import (
	"bytes"
	"fmt"
	"strconv"
	"strings"
	"time"
)

const SOH = 0x01

type Field struct {
	Tag   int
	Value string
}

type Msg struct {
	Fields []Field
	Raw    []byte
}

// Scan splits on SOH and on the first '=' of each field. It does not know about data fields
// (embedded SOH); callers that use them must use ScanWithData.
func Scan(b []byte) (*Msg, error) {
	m := &Msg{Raw: b}
	if len(b) == 0 || b[len(b)-1] != SOH {
		return nil, fmt.Errorf("does not end with SOH")
	}
	for _, part := range bytes.Split(b[:len(b)-1], []byte{SOH}) {
		i := bytes.IndexByte(part, '=')
		if i <= 0 {
			return nil, fmt.Errorf("field without tag: %q", part)
		}
		t, err := strconv.Atoi(string(part[:i]))
		if err != nil {
			return nil, fmt.Errorf("bad tag %q", part[:i])
		}
		m.Fields = append(m.Fields, Field{t, string(part[i+1:])})
	}
	return m, nil
}

func (m *Msg) Get(tag int) (string, bool) {
	for _, f := range m.Fields {
		if f.Tag == tag {
			return f.Value, true
		}
	}
	return "", false
}
func (m *Msg) Has(tag int) bool { _, ok := m.Get(tag); return ok }
func (m *Msg) Int(tag int) (int, bool) {
	v, ok := m.Get(tag)
	if !ok {
		return 0, false
	}
	n, err := strconv.Atoi(v)
	return n, err == nil
}
func (m *Msg) Count(tag int) int {
	n := 0
	for _, f := range m.Fields {
		if f.Tag == tag {
			n++
		}
	}
	return n
}
func (m *Msg) Type() string { v, _ := m.Get(35); return v }
func (m *Msg) Seq() int     { v, _ := m.Int(34); return v }
func (m *Msg) PossDup() bool {
	v, _ := m.Get(43)
	return v == "Y"
}

// IsAdminType per the FIX session layer.
func IsAdminType(t string) bool {
	switch t {
	case "0", "1", "2", "3", "4", "5", "A":
		return true
	}
	return false
}

// Standard header tags (FIX 4.0–5.0SP2 specification, StandardHeader component).
var headerTags = map[int]bool{8: true, 9: true, 35: true, 49: true, 56: true, 115: true, 128: true, 90: true, 91: true,
	34: true, 50: true, 142: true, 57: true, 143: true, 116: true, 144: true, 129: true, 145: true, 43: true, 97: true,
	52: true, 122: true, 212: true, 213: true, 347: true, 369: true, 370: true, 627: true, 628: true, 629: true, 630: true,
	1128: true, 1129: true, 1156: true}
var trailerTags = map[int]bool{93: true, 89: true, 10: true}

func IsHeaderTag(t int) bool  { return headerTags[t] }
func IsTrailerTag(t int) bool { return trailerTags[t] }

// CheckFraming verifies 8/9/35 first, 10 last, BodyLength and CheckSum. Returns "" if fine.
func (m *Msg) CheckFraming() string {
	f := m.Fields
	if len(f) < 4 {
		return "fewer than 4 fields"
	}
	if f[0].Tag != 8 || f[1].Tag != 9 || f[2].Tag != 35 {
		return fmt.Sprintf("first three tags are %d,%d,%d", f[0].Tag, f[1].Tag, f[2].Tag)
	}
	if f[len(f)-1].Tag != 10 {
		return "last tag is not 10"
	}
	// body length: bytes after the 9= field's SOH up to and including the SOH before 10=
	raw := m.Raw
	i9 := bytes.Index(raw, []byte("\x019="))
	if i9 < 0 {
		return "no 9="
	}
	start := i9 + 1 + bytes.IndexByte(raw[i9+1:], SOH) + 1
	i10 := bytes.LastIndex(raw, []byte("\x0110="))
	if i10 < 0 {
		return "no 10="
	}
	want := i10 + 1 - start
	if got, ok := m.Int(9); !ok || got != want || f[1].Value != strconv.Itoa(want) {
		return fmt.Sprintf("BodyLength %q, counted %d", f[1].Value, want)
	}
	sum := 0
	for _, c := range raw[:i10+1] {
		sum += int(c)
	}
	if cs := fmt.Sprintf("%03d", sum%256); f[len(f)-1].Value != cs {
		return fmt.Sprintf("CheckSum %q, computed %s", f[len(f)-1].Value, cs)
	}
	return ""
}

// Build serialises fields (8 first, then 9 computed, then the rest in the given order, then 10).
// fields must not contain 9 or 10; the first must be 8.
func Build(fields []Field) []byte {
	var body bytes.Buffer
	for _, f := range fields[1:] {
		fmt.Fprintf(&body, "%d=%s\x01", f.Tag, f.Value)
	}
	var out bytes.Buffer
	fmt.Fprintf(&out, "%d=%s\x019=%d\x01", fields[0].Tag, fields[0].Value, body.Len())
	out.Write(body.Bytes())
	sum := 0
	for _, c := range out.Bytes() {
		sum += int(c)
	}
	fmt.Fprintf(&out, "10=%03d\x01", sum%256)
	return out.Bytes()
}

// Stamp formats a UTC timestamp in FIX seconds precision.
func Stamp(t time.Time) string { return t.UTC().Format("20060102-15:04:05") }

// StampMs formats with milliseconds.
func StampMs(t time.Time) string { return t.UTC().Format("20060102-15:04:05.000") }

// Pretty renders a message with '|' for SOH.
func Pretty(b []byte) string { return strings.ReplaceAll(string(b), "\x01", "|") }

// BodyRegion returns the bytes of the body fields (fields that are neither header nor trailer by the
// standard tables), located as the contiguous region after the last leading header field and before
// the first trailing trailer field.
func (m *Msg) BodyRegion() string {
	f := m.Fields
	i := 0
	for i < len(f) && IsHeaderTag(f[i].Tag) {
		i++
	}
	j := len(f)
	for j > i && IsTrailerTag(f[j-1].Tag) {
		j--
	}
	var sb strings.Builder
	for _, x := range f[i:j] {
		fmt.Fprintf(&sb, "%d=%s\x01", x.Tag, x.Value)
	}
	return sb.String()
}
