// Package sessmc: Engine A — explicit-state exploration over real quickfix sessions driven
// synchronously through the verif export seam (one transition = one run-loop iteration).
package sessmc

import (
	"fmt"
	"os"
	"sort"
	"strconv"
	"strings"
	"sync"
	"time"

	"github.com/quickfixgo/quickfix"
	"github.com/quickfixgo/quickfix/config"
	filestore "github.com/quickfixgo/quickfix/store/file"
	sqlstore "github.com/quickfixgo/quickfix/store/sql"

	"verif/internal/fixscan"
)

// Config of one session under exploration. Our side is ISLD, the peer is TW.
type Config struct {
	Initiator         bool
	BeginString       string
	Chunk             int
	AppReject         bool // FromApp answers with a business reject
	ResetOnLogon      bool
	ResetOnLogout     bool
	ResetOnDisconnect bool
	RefreshOnLogon    bool
	HeartBtInt        int // seconds; 0 => 30
	HBOverride        bool
	NoPersist         bool
	NoCheckLatency    bool
	FileDir           string // non-empty => file store in this directory
	DataDictionary    string
	TransportDD       string
	AppDD             string
	DefaultApplVerID  string
	Extra             map[string]string
	InitS, InitT      int      // initial next sender/target numbers (0 => 1)
	InitMsgs          []string // types of messages pre-stored under numbers 1..len (sender side)
	RefuseResend      map[int]bool
	VirtualTimers     bool
	Timed             bool // virtual clock: tick events, timers fire only when due
	AppResetFlag      bool // the application's ToAdmin callback sets ResetSeqNumFlag=Y on every outgoing Logon
	Flip              bool // this side is TW talking to ISLD (the mirror identity, for two-engine worlds)
	ResetSeqTime      bool // ResetSeqTime=12:00:00 (UTC) is configured (event "reset-time": the one-second ticker crosses it)
	SessionWindow     bool // a daily session window of +-6 h around the current time is configured (event "window-closes")
	SenderSub         string
	TargetSub         string
	SenderLoc         string // SenderLocationID / TargetLocationID of the session
	TargetLoc         string
	SQLTemplate       string // with FileDir: use the SQL store on a private copy of this sqlite database file
	OutCap            int    // extra capacity of the outbound channel (one event may transmit more than 512 messages)
}

func (c Config) String() string {
	role := "acc"
	if c.Initiator {
		role = "ini"
	}
	s := fmt.Sprintf("%s/%s/chunk=%d", role, c.BeginString, c.Chunk)
	if c.AppReject {
		s += "/appreject"
	}
	for _, f := range []struct {
		b bool
		n string
	}{{c.ResetOnLogon, "RLogon"}, {c.ResetOnLogout, "RLogout"}, {c.ResetOnDisconnect, "RDisc"}, {c.RefreshOnLogon, "Refresh"},
		{c.ResetSeqTime, "ResetSeqTime"}, {c.HBOverride, "HBOverride"}, {c.NoPersist, "nopersist"}, {c.NoCheckLatency, "nolatency"}, {c.FileDir != "" && c.SQLTemplate == "", "file"}, {c.SQLTemplate != "", "sql"}, {c.SenderSub+c.TargetSub+c.SenderLoc+c.TargetLoc != "", "sub=" + c.SenderSub + "/" + c.TargetSub + ",loc=" + c.SenderLoc + "/" + c.TargetLoc}} {
		if f.b {
			s += "/" + f.n
		}
	}
	if c.InitS > 1 || c.InitT > 1 {
		s += fmt.Sprintf("/S%dT%d", c.InitS, c.InitT)
	}
	if c.HeartBtInt != 0 && c.HeartBtInt != 30 {
		s += fmt.Sprintf("/hb=%d", c.HeartBtInt)
	}
	if c.DataDictionary != "" || c.AppDD != "" {
		s += "/dd"
	}
	if len(c.Extra) > 0 {
		var ks []string
		for k, v := range c.Extra {
			ks = append(ks, k+"="+v)
		}
		sort.Strings(ks)
		s += "/" + strings.Join(ks, ",")
	}
	return s
}

// Obs is one entry of the ordered observation log.
type Obs struct {
	K       string // FromApp FromAdmin ToApp ToAdmin OnLogon OnLogout st out closed armS armP panic
	Type    string
	Seq     int
	PossDup bool
	Op      string // store op
	Arg     int
	T0, S0  int // counters before (store ops / callbacks: at call time)
	T1, S1  int // counters after (store ops)
	Conn    int // connection index for out/closed
	Raw     []byte
	D       time.Duration
	Txt     string
	Begin   int // ToAdmin(ResendRequest): BeginSeqNo / EndSeqNo
	End     int
}

func (o Obs) String() string {
	switch o.K {
	case "st":
		return fmt.Sprintf("st.%s(%d)[T%d→%d S%d→%d]", o.Op, o.Arg, o.T0, o.T1, o.S0, o.S1)
	case "out":
		return fmt.Sprintf("out#%d{%s}", o.Conn, fixscan.Pretty(o.Raw))
	case "armS", "armP":
		return fmt.Sprintf("%s(%v)", o.K, o.D)
	case "OnLogon", "OnLogout", "closed":
		return o.K
	case "panic":
		return "PANIC:" + o.Txt
	}
	pd := ""
	if o.PossDup {
		pd = ",PossDup"
	}
	return fmt.Sprintf("%s(%s,%d%s)[T=%d]", o.K, o.Type, o.Seq, pd, o.T0)
}

// recStore wraps the real store and logs every mutating call.
type recStore struct {
	quickfix.MessageStore
	w     *World
	types map[int]string // seq -> msg type of what is stored (summary for state keys)
}

func (r *recStore) rec(op string, arg int, f func() error) error {
	t0, s0 := r.MessageStore.NextTargetMsgSeqNum(), r.MessageStore.NextSenderMsgSeqNum()
	err := f()
	o := Obs{K: "st", Op: op, Arg: arg, T0: t0, S0: s0, T1: r.MessageStore.NextTargetMsgSeqNum(), S1: r.MessageStore.NextSenderMsgSeqNum()}
	if err != nil {
		o.Txt = err.Error()
	}
	r.w.log = append(r.w.log, o)
	r.w.horizon()
	return err
}
func (r *recStore) IncrNextSenderMsgSeqNum() error {
	return r.rec("IncrS", 0, r.MessageStore.IncrNextSenderMsgSeqNum)
}
func (r *recStore) IncrNextTargetMsgSeqNum() error {
	return r.rec("IncrT", 0, r.MessageStore.IncrNextTargetMsgSeqNum)
}
func (r *recStore) SetNextSenderMsgSeqNum(n int) error {
	return r.rec("SetS", n, func() error { return r.MessageStore.SetNextSenderMsgSeqNum(n) })
}
func (r *recStore) SetNextTargetMsgSeqNum(n int) error {
	return r.rec("SetT", n, func() error { return r.MessageStore.SetNextTargetMsgSeqNum(n) })
}
func (r *recStore) noteSave(seq int, msg []byte) {
	if r.types == nil {
		r.types = map[int]string{}
	}
	t := "?"
	if m, err := fixscan.Scan(msg); err == nil {
		t = m.Type()
	}
	r.types[seq] = t
}
func (r *recStore) SaveMessage(seq int, msg []byte) error {
	r.noteSave(seq, msg)
	return r.rec("Save", seq, func() error { return r.MessageStore.SaveMessage(seq, msg) })
}
func (r *recStore) SaveMessageAndIncrNextSenderMsgSeqNum(seq int, msg []byte) error {
	r.noteSave(seq, msg)
	return r.rec("SaveIncrS", seq, func() error { return r.MessageStore.SaveMessageAndIncrNextSenderMsgSeqNum(seq, msg) })
}
func (r *recStore) Refresh() error { return r.rec("Refresh", 0, r.MessageStore.Refresh) }
func (r *recStore) Reset() error {
	r.types = nil
	return r.rec("Reset", 0, r.MessageStore.Reset)
}

type recFactory struct {
	inner quickfix.MessageStoreFactory
	w     *World
}

func (f recFactory) Create(id quickfix.SessionID) (quickfix.MessageStore, error) {
	st, err := f.inner.Create(id)
	if err != nil {
		return nil, err
	}
	rs := &recStore{MessageStore: st, w: f.w}
	f.w.store = rs
	return rs, nil
}

// recApp logs callbacks.
type recApp struct{ w *World }

func (a *recApp) hdr(k string, m *quickfix.Message) {
	t, _ := m.Header.GetString(35)
	seq, _ := m.Header.GetInt(34)
	pd, _ := m.Header.GetBool(43)
	w := a.w
	o := Obs{K: k, Type: t, Seq: seq, PossDup: pd}
	if w.store != nil {
		o.T0, o.S0 = w.store.NextTargetMsgSeqNum(), w.store.NextSenderMsgSeqNum()
	}
	if k == "ToAdmin" && t == "2" {
		o.Begin, _ = m.Body.GetInt(7)
		o.End, _ = m.Body.GetInt(16)
	}
	w.log = append(w.log, o)
	w.horizon()
}
func (a *recApp) OnCreate(quickfix.SessionID) {}
func (a *recApp) OnLogon(quickfix.SessionID) {
	a.w.log = append(a.w.log, Obs{K: "OnLogon"})
	a.w.AppLoggedOn++
}
func (a *recApp) OnLogout(quickfix.SessionID) {
	a.w.log = append(a.w.log, Obs{K: "OnLogout"})
}
func (a *recApp) ToAdmin(m *quickfix.Message, _ quickfix.SessionID) {
	if a.w.Cfg.AppResetFlag {
		if t, _ := m.Header.GetString(35); t == "A" {
			m.Body.SetBool(141, true)
		}
	}
	a.hdr("ToAdmin", m)
}
func (a *recApp) ToApp(m *quickfix.Message, _ quickfix.SessionID) error {
	a.hdr("ToApp", m)
	if pd, _ := m.Header.GetBool(43); pd {
		seq, _ := m.Header.GetInt(34)
		if a.w.Cfg.RefuseResend[seq] {
			return fmt.Errorf("do not resend")
		}
	}
	return nil
}
func (a *recApp) FromAdmin(m *quickfix.Message, _ quickfix.SessionID) quickfix.MessageRejectError {
	a.hdr("FromAdmin", m)
	if t, _ := m.Header.GetString(35); t == "A" {
		if txt, err := m.Body.GetString(58); err == nil && txt == "REJECT" {
			return quickfix.RejectLogon{Text: "application refuses this logon"}
		}
	}
	return nil
}
func (a *recApp) FromApp(m *quickfix.Message, _ quickfix.SessionID) quickfix.MessageRejectError {
	a.hdr("FromApp", m)
	if id, err := m.Body.GetString(11); err == nil {
		a.w.Delivered = append(a.w.Delivered, id)
	}
	if a.w.Cfg.AppReject {
		return quickfix.NewBusinessMessageRejectError("no", 4, nil)
	}
	return nil
}

// World is one real session plus its closed environment.
type World struct {
	Cfg   Config
	VS    *quickfix.VerifSession
	ID    quickfix.SessionID
	store *recStore
	sf    quickfix.MessageStoreFactory // the persistent store's own factory (second instances: another process on the same data)
	app   *recApp
	log   []Obs

	out         chan []byte
	in          chan quickfix.VerifFixIn
	Conn        int  // index of current/last connection (1-based)
	OutOpen     bool // the harness still holds an open outbound channel
	ArmS, ArmP  bool // virtual timers armed
	DurS, DurP  time.Duration
	AppLoggedOn int
	Started     bool
	Now         func() time.Time
	LastIn      *fixscan.Msg  // last materialised inbound message (nil for garbage)
	LastInT     int           // expected inbound number just before it was delivered
	dir         string        // file-store directory of this world
	VNow        time.Duration // virtual clock (Timed mode)
	DeadS       time.Duration // virtual deadline of the heartbeat timer
	DeadP       time.Duration // virtual deadline of the peer timer
	Restarts    int
	Delivered   []string // ClOrdID (11) of every application message handed to FromApp, in order
	Loop        *LoopCtl // non-nil: run-loop mode
	lastSent    *quickfix.Message
	sameN       int
	sqlDSN      string // SQL-store worlds: the data source (statement failures are planned per data source)
	Hung        bool   // a handler did not return (the world is abandoned)
	applyStart  int
	ResetDay    int // occurrences of the reset-time event so far
	ClockSec    int // seconds past the last crossing (clock-tick events)
	applyName   string
}

const (
	OurComp  = "ISLD"
	PeerComp = "TW"
)

// NewWorld builds the session through the real factory path.
func NewWorld(cfg Config) (*World, error) {
	w := &World{Cfg: cfg, Now: time.Now}
	if cfg.BeginString == "" {
		w.Cfg.BeginString = "FIX.4.2"
	}
	if cfg.FileDir != "" {
		d, err := os.MkdirTemp(cfg.FileDir, "w")
		if err != nil {
			return nil, err
		}
		w.dir = d
	}
	if err := w.boot(true); err != nil {
		return nil, err
	}
	return w, nil
}

// Restart discards the session object (as a process restart would) and builds a new one on the
// same persistent store directory.
func (w *World) Restart() error {
	w.store.MessageStore.Close()
	w.out, w.in, w.OutOpen = nil, nil, false
	w.ArmS, w.ArmP = false, false
	return w.boot(false)
}

func (w *World) boot(first bool) error {
	cfg := w.Cfg
	our, peer := OurComp, PeerComp
	if cfg.Flip {
		our, peer = PeerComp, OurComp
	}
	id := quickfix.SessionID{BeginString: cfg.BeginString, SenderCompID: our, TargetCompID: peer,
		SenderSubID: cfg.SenderSub, TargetSubID: cfg.TargetSub, SenderLocationID: cfg.SenderLoc, TargetLocationID: cfg.TargetLoc}
	w.ID = id
	ss := quickfix.NewSessionSettings()
	ss.Set(config.BeginString, cfg.BeginString)
	ss.Set(config.SenderCompID, our)
	ss.Set(config.TargetCompID, peer)
	if cfg.SenderSub != "" {
		ss.Set(config.SenderSubID, cfg.SenderSub)
	}
	if cfg.TargetSub != "" {
		ss.Set(config.TargetSubID, cfg.TargetSub)
	}
	if cfg.SenderLoc != "" {
		ss.Set(config.SenderLocationID, cfg.SenderLoc)
	}
	if cfg.TargetLoc != "" {
		ss.Set(config.TargetLocationID, cfg.TargetLoc)
	}
	hb := cfg.HeartBtInt
	if hb == 0 {
		hb = 30
	}
	if cfg.Initiator {
		ss.Set(config.HeartBtInt, strconv.Itoa(hb))
		ss.Set(config.SocketConnectHost, "127.0.0.1")
		ss.Set(config.SocketConnectPort, "1")
	} else if cfg.HBOverride {
		ss.Set(config.HeartBtInt, strconv.Itoa(hb))
		ss.Set(config.HeartBtIntOverride, "Y")
	}
	yn := func(k string, b bool) {
		if b {
			ss.Set(k, "Y")
		}
	}
	yn(config.ResetOnLogon, cfg.ResetOnLogon)
	yn(config.ResetOnLogout, cfg.ResetOnLogout)
	yn(config.ResetOnDisconnect, cfg.ResetOnDisconnect)
	yn(config.RefreshOnLogon, cfg.RefreshOnLogon)
	if cfg.NoPersist {
		ss.Set(config.PersistMessages, "N")
	}
	if cfg.NoCheckLatency {
		ss.Set(config.CheckLatency, "N")
	}
	if cfg.Chunk != 0 {
		ss.Set(config.ResendRequestChunkSize, strconv.Itoa(cfg.Chunk))
	}
	if cfg.BeginString == "FIXT.1.1" {
		v := cfg.DefaultApplVerID
		if v == "" {
			v = "FIX.5.0SP2"
		}
		ss.Set(config.DefaultApplVerID, v)
		if cfg.TransportDD != "" {
			ss.Set(config.TransportDataDictionary, cfg.TransportDD)
			ss.Set(config.AppDataDictionary, cfg.AppDD)
		}
	} else if cfg.DataDictionary != "" {
		ss.Set(config.DataDictionary, cfg.DataDictionary)
	}
	if cfg.ResetSeqTime {
		ss.Set(config.ResetSeqTime, "12:00:00")
	}
	if cfg.SessionWindow {
		now := time.Now().UTC()
		ss.Set(config.StartTime, now.Add(-6*time.Hour).Format("15:04:05"))
		ss.Set(config.EndTime, now.Add(6*time.Hour).Format("15:04:05"))
	}
	for k, v := range cfg.Extra {
		ss.Set(k, v)
	}
	var sf quickfix.MessageStoreFactory
	if cfg.FileDir != "" {
		gs := quickfix.NewSettings()
		gs.GlobalSettings().Set(config.FileStorePath, w.dir)
		gs.GlobalSettings().Set(config.FileStoreSync, "N")
		ss2 := quickfix.NewSessionSettings()
		ss2.Set(config.BeginString, cfg.BeginString)
		ss2.Set(config.SenderCompID, our)
		ss2.Set(config.TargetCompID, peer)
		if cfg.SenderSub != "" {
			ss2.Set(config.SenderSubID, cfg.SenderSub)
		}
		if cfg.TargetSub != "" {
			ss2.Set(config.TargetSubID, cfg.TargetSub)
		}
		if cfg.SenderLoc != "" {
			ss2.Set(config.SenderLocationID, cfg.SenderLoc)
		}
		if cfg.TargetLoc != "" {
			ss2.Set(config.TargetLocationID, cfg.TargetLoc)
		}
		if cfg.SQLTemplate != "" {
			db := w.dir + "/s.db"
			if first {
				b, err := os.ReadFile(cfg.SQLTemplate)
				if err != nil {
					return err
				}
				if err := os.WriteFile(db, b, 0o644); err != nil {
					return err
				}
			}
			registerSQLFaultDriver()
			gs.GlobalSettings().Set(config.SQLStoreDriver, SQLFaultDriver)
			gs.GlobalSettings().Set(config.SQLStoreDataSourceName, db)
			w.sqlDSN = db
		}
		if _, err := gs.AddSession(ss2); err != nil {
			return err
		}
		if cfg.SQLTemplate != "" {
			sf = sqlstore.NewStoreFactory(gs)
		} else {
			sf = filestore.NewStoreFactory(gs)
		}
	} else {
		sf = quickfix.NewMemoryStoreFactory()
	}
	w.sf = sf
	w.app = &recApp{w: w}
	vs, err := quickfix.VerifNewSession(cfg.Initiator, id, recFactory{sf, w}, ss, quickfix.NewNullLogFactory(), w.app)
	if err != nil {
		return err
	}
	w.VS = vs
	vs.BufferSessionEvents(64)
	vs.SetTimeouts(time.Nanosecond, time.Nanosecond)
	vs.SetVirtualTimers(
		func(d time.Duration) {
			w.ArmS, w.DurS, w.DeadS = true, d, w.VNow+d
			w.log = append(w.log, Obs{K: "armS", D: d})
		},
		func(d time.Duration) {
			w.ArmP, w.DurP, w.DeadP = true, d, w.VNow+d
			w.log = append(w.log, Obs{K: "armP", D: d})
		})
	// initial counters / history (set on the real store below the recorder)
	inner := w.store.MessageStore
	if first {
		for i, t := range cfg.InitMsgs {
			seq := i + 1
			b := w.OurMsg(t, seq)
			if err := inner.SaveMessage(seq, b); err != nil {
				return err
			}
			w.store.noteSave(seq, b)
		}
		if cfg.InitS > 1 {
			inner.SetNextSenderMsgSeqNum(cfg.InitS)
		}
		if cfg.InitT > 1 {
			inner.SetNextTargetMsgSeqNum(cfg.InitT)
		}
	} else {
		// rebuild the stored-history summary from what the reopened store returns
		if msgs, err := inner.GetMessages(1, inner.NextSenderMsgSeqNum()+64); err == nil {
			for _, b := range msgs {
				if m, err := fixscan.Scan(b); err == nil {
					w.store.noteSave(m.Seq(), b)
				}
			}
		}
	}
	vs.Start()
	w.Started = true
	if first {
		w.log = nil
	}
	return nil
}

// Close releases the store.
func (w *World) Close() {
	if w.store != nil {
		w.store.MessageStore.Close()
	}
	if w.dir != "" {
		os.RemoveAll(w.dir)
	}
}

func (w *World) T() int { return w.store.NextTargetMsgSeqNum() }
func (w *World) S() int { return w.store.NextSenderMsgSeqNum() }

// StoredTypes summarises the stored outbound history (seq:type,...).
func (w *World) StoredTypes() string {
	keys := make([]int, 0, len(w.store.types))
	for k := range w.store.types {
		keys = append(keys, k)
	}
	sort.Ints(keys)
	var sb strings.Builder
	for _, k := range keys {
		fmt.Fprintf(&sb, "%d%s,", k, w.store.types[k])
	}
	return sb.String()
}

func (w *World) StoredTypeMap() map[int]string { return w.store.types }

// StoredActual is what the real store returns for the numbers 1..S-1 ("seqType," tokens), or the read error.
func (w *World) StoredActual() string {
	hi := w.S() - 1
	if hi < 1 {
		return ""
	}
	var sb strings.Builder
	err := w.store.MessageStore.IterateMessages(1, hi, func(b []byte) error {
		if m, e := fixscan.Scan(b); e != nil {
			sb.WriteString("?,")
		} else {
			fmt.Fprintf(&sb, "%d%s,", m.Seq(), m.Type())
		}
		return nil
	})
	if err != nil {
		return "ERR:" + err.Error()
	}
	return sb.String()
}

// OurMsg builds a message as if sent by our side earlier (for pre-stored history).
func (w *World) OurMsg(t string, seq int) []byte {
	f := []fixscan.Field{{8, w.Cfg.BeginString}, {35, t}, {34, strconv.Itoa(seq)}, {49, OurComp}, {52, fixscan.Stamp(time.Now().Add(-time.Minute))}, {56, PeerComp}}
	switch t {
	case "D":
		f = append(f, fixscan.Field{11, "ID" + strconv.Itoa(seq)}, fixscan.Field{55, "X"})
	case "1":
		f = append(f, fixscan.Field{112, "T"})
	case "A":
		f = append(f, fixscan.Field{98, "0"}, fixscan.Field{108, "30"})
	}
	return fixscan.Build(f)
}

// In describes an inbound message symbolically; it is materialised at delivery time.
type In struct {
	Type     string
	Rel      int  // MsgSeqNum = T + Rel unless Abs > 0
	Abs      int  // absolute MsgSeqNum
	PossDup  bool // 43=Y with OrigSendingTime one minute earlier
	OrigSame bool // 43=Y with OrigSendingTime equal to SendingTime (a replay within the same clock tick)
	Body     []fixscan.Field
	NewRel   *int            // SequenceReset: NewSeqNo = own MsgSeqNum + *NewRel
	NewRelT  *int            // SequenceReset: NewSeqNo = T + *NewRelT
	Set      []fixscan.Field // header overrides / additions (replace value if tag present)
	Del      []int           // header/body fields to drop
	TimeSkew time.Duration   // SendingTime offset
	Garbage  string          // raw bytes instead of a message
	NextExpS *int            // Logon: NextExpectedMsgSeqNum(789) = our next outbound number + *NextExpS
}

func ip(i int) *int { return &i }

// IP is a helper for pointer-to-int literals.
func IP(i int) *int { return &i }

// Materialise produces the bytes for the descriptor in the current state.
func (w *World) Materialise(d *In) []byte {
	if d.Garbage != "" {
		return []byte(d.Garbage)
	}
	seq := d.Abs
	if seq == 0 {
		seq = w.T() + d.Rel
	}
	now := w.Now().Add(d.TimeSkew)
	f := []fixscan.Field{{8, w.Cfg.BeginString}, {35, d.Type}, {34, strconv.Itoa(seq)}, {49, PeerComp}}
	if w.Cfg.TargetSub != "" {
		f = append(f, fixscan.Field{50, w.Cfg.TargetSub})
	}
	f = append(f, fixscan.Field{52, fixscan.Stamp(now)}, fixscan.Field{56, OurComp})
	if w.Cfg.SenderSub != "" {
		f = append(f, fixscan.Field{57, w.Cfg.SenderSub})
	}
	if d.PossDup {
		f = append(f, fixscan.Field{43, "Y"}, fixscan.Field{122, fixscan.Stamp(now.Add(-time.Minute))})
	} else if d.OrigSame {
		f = append(f, fixscan.Field{43, "Y"}, fixscan.Field{122, fixscan.Stamp(now)})
	}
	body := append([]fixscan.Field{}, d.Body...)
	switch d.Type {
	case "A":
		if !hasTag(body, 98) {
			body = append([]fixscan.Field{{98, "0"}}, body...)
		}
		if !hasTag(body, 108) {
			hb := w.Cfg.HeartBtInt
			if hb == 0 {
				hb = 30
			}
			body = append(body, fixscan.Field{108, strconv.Itoa(hb)})
		}
		if w.Cfg.BeginString == "FIXT.1.1" && !hasTag(body, 1137) {
			body = append(body, fixscan.Field{1137, "9"})
		}
		if d.NextExpS != nil {
			body = append(body, fixscan.Field{789, strconv.Itoa(w.S() + *d.NextExpS)})
		}
	case "D":
		if !hasTag(body, 11) {
			body = append(body, fixscan.Field{11, "ID"}, fixscan.Field{55, "X"})
		}
	case "4":
		if d.NewRel != nil {
			body = append(body, fixscan.Field{36, strconv.Itoa(seq + *d.NewRel)})
		} else if d.NewRelT != nil {
			body = append(body, fixscan.Field{36, strconv.Itoa(w.T() + *d.NewRelT)})
		}
	}
	f = append(f, body...)
	for _, s := range d.Set {
		done := false
		for i := range f {
			if f[i].Tag == s.Tag {
				f[i].Value = s.Value
				done = true
			}
		}
		if !done {
			// header tags are inserted after 35, others appended
			if fixscan.IsHeaderTag(s.Tag) {
				f = append(f[:3], append([]fixscan.Field{s}, f[3:]...)...)
			} else {
				f = append(f, s)
			}
		}
	}
	for _, t := range d.Del {
		for i := 0; i < len(f); i++ {
			if f[i].Tag == t {
				f = append(f[:i], f[i+1:]...)
				i--
			}
		}
	}
	return fixscan.Build(f)
}

func hasTag(f []fixscan.Field, t int) bool {
	for _, x := range f {
		if x.Tag == t {
			return true
		}
	}
	return false
}

// LoopCtl switches a World to run-loop mode: events are injected through the real channels of a
// running session.run() goroutine and Barrier() (testing/synctest.Wait in the conformance test) waits
// until the loop has processed them. Used only to validate the synchronous decomposition.
type LoopCtl struct {
	Barrier func()
	Sleep   func(time.Duration)
	started bool
}

// StartLoop starts the real run() goroutine with real EventTimers (observed, not virtual).
func (w *World) StartLoop(l *LoopCtl) {
	w.Loop = l
	w.VS.SetTimeouts(time.Hour, time.Hour)
	go w.VS.Run()
	l.Sleep(1500 * time.Millisecond) // run() aligns itself to the next full second first
	l.Barrier()
	w.VS.ObserveTimers(
		func(d time.Duration) {
			w.ArmS, w.DurS, w.DeadS = true, d, w.VNow+d
			w.log = append(w.log, Obs{K: "armS", D: d})
		},
		func(d time.Duration) {
			w.ArmP, w.DurP, w.DeadP = true, d, w.VNow+d
			w.log = append(w.log, Obs{K: "armP", D: d})
		})
	l.started = true
}

// Write failures are injected through the file store's process-global hook; worlds run in parallel, so the hook
// looks the world up by the directory of the file being written.
var (
	failMu   sync.Mutex
	failDirs = map[string]*int{} // world directory -> writes left before the failing one
	failOnce sync.Once
)

func armWriteFailure(dir string, k int) {
	failOnce.Do(func() {
		filestore.VerifFailHook = func(label string) error {
			failMu.Lock()
			defer failMu.Unlock()
			for d, left := range failDirs {
				if strings.Contains(label, d+string(os.PathSeparator)) {
					*left--
					if *left == 0 {
						return fmt.Errorf("injected write failure (%s)", label[:strings.LastIndex(label, ":")])
					}
				}
			}
			return nil
		}
	})
	failMu.Lock()
	n := k
	failDirs[dir] = &n
	failMu.Unlock()
}

func disarmWriteFailure(dir string) {
	failMu.Lock()
	delete(failDirs, dir)
	failMu.Unlock()
}

// Event is one run-loop iteration's trigger.
type Event struct {
	K    string // connect disconnect in to send flush stop
	In   *In
	To   int             // timeout event
	Send []fixscan.Field // application message body (type D)
	Name string
	// SendGroup: the application message carries a repeating group with a nested group
	SendGroup bool
	// SendGroupLast: a flat NoPartyIDs group (453) as the last body field
	SendGroupLast bool
	// SendType: MsgType of the application message (default D); SendNews: a News message whose first body field is
	// the LinesOfText group count (33)
	SendType  string
	SendNews  bool
	SendEmpty bool // the application message carries no body field at all
	SendSame  bool // the Message object of the previous send is changed and submitted again
	// FailWrite: during this send the k-th write of the session's file store fails (file-store worlds only)
	FailWrite int
	// Behind: a second inbound message already buffered in the inbound channel while In is handled (pipelined by
	// the peer); its number is relative to T at the time In arrives
	Behind *In
}

func (e Event) String() string { return e.Name }

// Enabled tells whether the real run loop could dispatch this event now.
func (w *World) Enabled(e *Event) bool {
	sn := w.VS.Snapshot()
	if sn.Stopped && e.K != "send" && e.K != "restart" {
		return false // the run loop has exited
	}
	switch e.K {
	case "connect":
		return !sn.Connected
	case "connect2":
		return sn.Connected
	case "disconnect", "in":
		return sn.Connected && !sn.InNil
	case "flush":
		return sn.MsgEvent > 0
	case "to":
		switch e.To {
		case quickfix.VerifNeedHeartbeat:
			return w.ArmS && (!w.Cfg.Timed || w.DeadS <= w.VNow)
		case quickfix.VerifPeerTimeout:
			return w.ArmP && (!w.Cfg.Timed || w.DeadP <= w.VNow)
		case quickfix.VerifLogonTimeout:
			return sn.State == "logon" && w.Cfg.Initiator
		case quickfix.VerifLogoutTimeout:
			return sn.State == "logout"
		}
	case "stop":
		return !sn.PendingStop
	case "restart":
		return !sn.Connected && w.dir != ""
	case "window-closes":
		return w.Cfg.SessionWindow && sn.SessionTime
	case "reset-time", "clock-tick":
		return w.Cfg.ResetSeqTime
	case "tick":
		// time cannot pass a due timer
		return w.Cfg.Timed && !(w.ArmS && w.DeadS <= w.VNow) && !(w.ArmP && w.DeadP <= w.VNow)
	case "send":
		return !sn.Stopped
	}
	return true
}

// Apply performs one transition and returns its observations (ordered).
// horizon: deterministic step bound of one handler call. No event of any alphabet makes the engine call back
// more than a few hundred times; a handler that has called back 100000 times is in a loop (it would also
// exhaust memory long before the wall-clock watchdog fires).
func (w *World) horizon() {
	if len(w.log)-w.applyStart > 100000 {
		w.log = w.log[:w.applyStart]
		panic("hang: the handler for " + w.applyName + " called back more than 100000 times without returning")
	}
}

func (w *World) Apply(e *Event) (obs []Obs) {
	start := len(w.log)
	w.applyStart, w.applyName = start, e.Name
	defer func() {
		if r := recover(); r != nil {
			w.log = append(w.log, Obs{K: "panic", Txt: fmt.Sprint(r)})
		}
		w.drain()
		obs = append([]Obs{}, w.log[start:]...)
	}()
	if w.Loop != nil {
		w.applyLoop(e)
		return
	}
	if w.Hung {
		return
	}
	done := make(chan struct{})
	go func() {
		defer close(done)
		defer func() {
			if r := recover(); r != nil {
				w.log = append(w.log, Obs{K: "panic", Txt: fmt.Sprint(r)})
			}
		}()
		w.applySync(e)
	}()
	select {
	case <-done:
	case <-time.After(30 * time.Second):
		// handlers take microseconds: the session goroutine would be stuck here for good
		// (the stuck goroutine keeps its own reference to the old log slice; this world is not used again)
		w.Hung = true
		w.log = append(append([]Obs{}, w.log[:start]...), Obs{K: "panic", Txt: "hang: the handler for " + e.Name + " did not return within 30 s"})
		w.out = nil
	}
	return
}

func (w *World) applySync(e *Event) {
	switch e.K {
	case "connect":
		w.out = make(chan []byte, 512+w.Cfg.OutCap)
		w.in = make(chan quickfix.VerifFixIn, 1)
		w.Conn++
		w.OutOpen = true
		if err := w.VS.Connect(w.out, w.in); err != nil {
			w.log = append(w.log, Obs{K: "connecterr", Txt: err.Error()})
		}
	case "connect2":
		// a second connection for a session that is connected must be refused ("Already connected")
		if err := w.VS.Connect(make(chan []byte, 8), make(chan quickfix.VerifFixIn, 1)); err == nil {
			w.log = append(w.log, Obs{K: "second-connect-accepted"})
		}
	case "disconnect":
		// the read loop closes messageIn; the run loop sees !ok and calls Disconnected
		w.VS.Disconnected()
	case "in":
		b := w.Materialise(e.In)
		if e.Behind != nil {
			select {
			case w.in <- quickfix.VerifMkIn(w.Materialise(e.Behind), w.Now()):
			default:
			}
		}
		w.LastIn, _ = fixscan.Scan(b)
		w.LastInT = w.T()
		w.VS.Incoming(quickfix.VerifMkIn(b, w.Now()))
		if e.Behind != nil {
			// what is still buffered is what the run loop reads next — unless the session has let go of the channel
			select {
			case m, ok := <-w.in:
				if ok && !w.VS.Snapshot().InNil {
					w.VS.Incoming(m)
				}
			default:
			}
		}
	case "to":
		switch e.To {
		case quickfix.VerifNeedHeartbeat:
			w.ArmS = false
		case quickfix.VerifPeerTimeout:
			w.ArmP = false
		}
		w.VS.Timeout(e.To)
	case "send":
		m := quickfix.NewMessage()
		if e.SendSame && w.lastSent != nil {
			// the application changes one field of the object it submitted before and submits it again
			m = w.lastSent
			w.sameN++
			m.Body.SetString(58, fmt.Sprintf("again-%d", w.sameN))
		}
		w.lastSent = m
		m.Header.SetString(35, "D")
		if e.SendType != "" {
			m.Header.SetString(35, e.SendType)
		}
		if e.SendNews {
			m.Header.SetString(35, "B")
			g := quickfix.NewRepeatingGroup(33, quickfix.GroupTemplate{quickfix.GroupElement(58)})
			g.Add().SetString(58, "line one")
			g.Add().SetString(58, "line=two")
			m.Body.SetGroup(g)
			m.Body.SetString(148, "headline")
		}
		for _, f := range e.Send {
			m.Body.SetString(quickfix.Tag(f.Tag), f.Value)
		}
		if e.SendGroup {
			sub := func() *quickfix.RepeatingGroup {
				return quickfix.NewRepeatingGroup(802, quickfix.GroupTemplate{quickfix.GroupElement(523), quickfix.GroupElement(803)})
			}
			g := quickfix.NewRepeatingGroup(453, quickfix.GroupTemplate{quickfix.GroupElement(448), quickfix.GroupElement(447), quickfix.GroupElement(452), sub()})
			e1 := g.Add()
			e1.SetString(448, "P1").SetString(447, "D").SetString(452, "1")
			sg := sub()
			sg.Add().SetString(523, "S1").SetString(803, "1")
			e1.SetGroup(sg)
			g.Add().SetString(448, "P2").SetString(447, "D").SetString(452, "2")
			m.Body.SetString(11, "ID")
			m.Body.SetGroup(g)
			m.Body.SetString(55, "IBM").SetString(54, "1").SetString(60, "20240101-00:00:00").SetString(40, "1")
		}
		if e.SendGroupLast {
			g := quickfix.NewRepeatingGroup(453, quickfix.GroupTemplate{quickfix.GroupElement(448), quickfix.GroupElement(447), quickfix.GroupElement(452)})
			g.Add().SetString(448, "P1").SetString(447, "D").SetString(452, "1")
			g.Add().SetString(448, "P2").SetString(447, "D").SetString(452, "2")
			m.Body.SetGroup(g)
		}
		if e.FailWrite > 0 && w.dir != "" {
			armWriteFailure(w.dir, e.FailWrite)
			if w.sqlDSN != "" {
				armSQLFailure(w.sqlDSN, e.FailWrite)
			}
		}
		err := w.VS.QueueForSend(m)
		if e.FailWrite > 0 && w.dir != "" {
			disarmWriteFailure(w.dir)
			if w.sqlDSN != "" {
				disarmSQLFailure(w.sqlDSN)
			}
		}
		if err != nil {
			w.log = append(w.log, Obs{K: "senderr", Txt: err.Error()})
		}
	case "flush":
		if w.VS.TakeMessageEvent() {
			w.VS.SendAppMessages()
		}
	case "stop":
		w.VS.StopReq()
	case "tick":
		w.VNow += w.TickUnit()
	case "window-closes":
		// the one-second ticker of run() notices that the session window has ended
		w.VS.CheckSessionTime(time.Now().Add(12 * time.Hour))
	case "reset-time":
		// two consecutive ticks of run()'s one-second ticker, one before and one after the daily reset time
		// (each occurrence of the event is the next day's crossing)
		at := time.Date(2030, 1, 1+w.ResetDay, 12, 0, 0, 0, time.UTC)
		w.ResetDay++
		w.ClockSec = 1
		w.VS.CheckResetTime(at.Add(-time.Second))
		w.VS.CheckResetTime(at.Add(time.Second))
	case "clock-tick":
		// one more tick of the one-second ticker that crosses nothing (the clock stands after the last crossing,
		// or an hour before the first one)
		w.ClockSec++
		at := time.Date(2030, 1, 1, 11, 0, 0, 0, time.UTC)
		if w.ResetDay > 0 {
			at = time.Date(2030, 1, w.ResetDay, 12, 0, 0, 0, time.UTC)
		}
		w.VS.CheckResetTime(at.Add(time.Duration(w.ClockSec) * time.Second))
	case "restart":
		w.Restarts++
		if err := w.Restart(); err != nil {
			w.log = append(w.log, Obs{K: "panic", Txt: "restart failed: " + err.Error()})
		}
	}
	return
}

// applyLoop injects the event into the running loop and waits for it to be processed.
func (w *World) applyLoop(e *Event) {
	l := w.Loop
	switch e.K {
	case "connect":
		w.out = make(chan []byte, 512+w.Cfg.OutCap)
		w.in = make(chan quickfix.VerifFixIn, 1)
		w.Conn++
		w.OutOpen = true
		done := make(chan error, 1)
		in, out := w.in, w.out
		go func() { done <- w.VS.ConnectAsync(in, out) }()
		l.Barrier()
		select {
		case err := <-done:
			if err != nil {
				w.log = append(w.log, Obs{K: "connecterr", Txt: err.Error()})
			}
		default:
			w.log = append(w.log, Obs{K: "panic", Txt: "connect not processed by the run loop"})
		}
	case "disconnect":
		close(w.in)
		l.Barrier()
	case "in":
		b := w.Materialise(e.In)
		var b2 []byte
		if e.Behind != nil {
			b2 = w.Materialise(e.Behind)
		}
		w.LastIn, _ = fixscan.Scan(b)
		w.LastInT = w.T()
		w.in <- quickfix.VerifMkIn(b, w.Now())
		if b2 != nil {
			w.in <- quickfix.VerifMkIn(b2, w.Now()) // buffered while the loop is busy with the first
		}
		l.Barrier()
	case "to":
		if w.Cfg.Timed {
			// the real EventTimer has fired by itself during the tick that made it due (see "tick")
			l.Barrier()
			break
		}
		switch e.To {
		case quickfix.VerifNeedHeartbeat:
			w.ArmS = false
		case quickfix.VerifPeerTimeout:
			w.ArmP = false
		}
		w.VS.InjectSessionEvent(e.To)
		l.Barrier()
	case "send":
		m := quickfix.NewMessage()
		m.Header.SetString(35, "D")
		if e.SendType != "" {
			m.Header.SetString(35, e.SendType)
		}
		if e.SendNews {
			m.Header.SetString(35, "B")
			g := quickfix.NewRepeatingGroup(33, quickfix.GroupTemplate{quickfix.GroupElement(58)})
			g.Add().SetString(58, "line one")
			g.Add().SetString(58, "line=two")
			m.Body.SetGroup(g)
			m.Body.SetString(148, "headline")
		}
		for _, f := range e.Send {
			m.Body.SetString(quickfix.Tag(f.Tag), f.Value)
		}
		if err := w.VS.QueueForSend(m); err != nil {
			w.log = append(w.log, Obs{K: "senderr", Txt: err.Error()})
		}
		l.Barrier() // the loop consumes the flush token on its own
	case "flush":
		l.Barrier()
	case "stop":
		go w.VS.StopAsync()
		l.Barrier()
	case "tick":
		u := w.TickUnit()
		w.VNow += u
		// a timer that comes due during this sleep fires (one shot): book it as disarmed first, so that a
		// re-arming during the handler is what remains recorded
		if w.ArmS && w.DeadS <= w.VNow {
			w.ArmS = false
		}
		if w.ArmP && w.DeadP <= w.VNow {
			w.ArmP = false
		}
		l.Sleep(u)
		l.Barrier()
	}
}

// TickUnit is one fifth of the session's current heartbeat interval.
func (w *World) TickUnit() time.Duration {
	hb := w.VS.HeartBtInt()
	if hb <= 0 {
		hb = 30 * time.Second
	}
	return hb / 5
}

// drain moves everything written to the outbound channel into the log.
func (w *World) drain() {
	if w.out == nil {
		return
	}
	for {
		select {
		case b, ok := <-w.out:
			if !ok {
				w.log = append(w.log, Obs{K: "closed", Conn: w.Conn})
				w.out = nil
				w.OutOpen = false
				return
			}
			o := Obs{K: "out", Raw: b, Conn: w.Conn}
			if m, err := fixscan.Scan(b); err == nil {
				o.Type, o.Seq, o.PossDup = m.Type(), m.Seq(), m.PossDup()
			}
			w.log = append(w.log, o)
		default:
			return
		}
	}
}

// Key is the absolute canonical state (property-relevant fields only; see DESIGN §2.2).
func (w *World) Key() string {
	sn := w.VS.Snapshot()
	var sb strings.Builder
	fmt.Fprintf(&sb, "%s|T%d|S%d|st%v%v%v|re%d,%d|sr%v|q%d|ps%v%v|o%v|i%v|me%d|hb%d|a%v%v|c%v|M%s",
		sn.State, w.T(), w.S(), sn.Stash, sn.StashTypes, sn.StashNewSeq, sn.ResendEnd, sn.CurResendEnd, sn.SentReset, sn.ToSend,
		sn.PendingStop, sn.Stopped, sn.OutNil, sn.InNil, sn.MsgEvent, int(sn.HeartBtInt/time.Second), w.ArmS, w.ArmP, w.OutOpen, w.StoredTypes())
	sb.WriteString(w.timeKey())
	sb.WriteString(queueKey(sn.Queued, 0, sn.TargetApplVerID))
	return sb.String()
}

// RelKey expresses sequence numbers relative to T and S. Sound because the session logic only
// compares and increments sequence numbers; the constants it inspects (1) are kept by flags.
func (w *World) RelKey() string {
	sn := w.VS.Snapshot()
	T, S := w.T(), w.S()
	var sb strings.Builder
	st := make([]int, len(sn.Stash))
	for i, k := range sn.Stash {
		st[i] = k - T
	}
	rel := func(v int) int {
		if v == 0 {
			return -9999
		}
		return v - T
	}
	ns := make([]int, len(sn.StashNewSeq))
	for i, k := range sn.StashNewSeq {
		if k != 0 {
			ns[i] = k - T
		} else {
			ns[i] = -9999
		}
	}
	fmt.Fprintf(&sb, "%s|T1%v|S1%v|st%v%v%v|re%d,%d|sr%v|q%d|ps%v%v|o%v|i%v|me%d|hb%d|a%v%v|c%v|M",
		sn.State, T == 1, S == 1, st, sn.StashTypes, ns, rel(sn.ResendEnd), rel(sn.CurResendEnd), sn.SentReset, sn.ToSend,
		sn.PendingStop, sn.Stopped, sn.OutNil, sn.InNil, sn.MsgEvent, int(sn.HeartBtInt/time.Second), w.ArmS, w.ArmP, w.OutOpen)
	sb.WriteString(w.timeKey())
	sb.WriteString(queueKey(sn.Queued, S, sn.TargetApplVerID))
	keys := make([]int, 0, len(w.store.types))
	for k := range w.store.types {
		keys = append(keys, k)
	}
	sort.Ints(keys)
	for _, k := range keys {
		fmt.Fprintf(&sb, "%d%s,", k-S, w.store.types[k])
	}
	return sb.String()
}

// queueKey: what waits in the send queue (type, number — absolute or relative to base — and PossDup of each).
func queueKey(q [][]byte, base int, appl string) string {
	if len(q) == 0 && appl == "" {
		return ""
	}
	var sb strings.Builder
	sb.WriteString("|Q")
	for _, b := range q {
		if m, err := fixscan.Scan(b); err == nil {
			pd, _ := m.Get(43)
			fmt.Fprintf(&sb, "%s%d%s,", m.Type(), m.Seq()-base, pd)
		} else {
			sb.WriteString("?,")
		}
	}
	return sb.String() + "|av" + appl
}

// resetKey: where the session's "last looked at the clock" mark stands relative to the last crossing of the
// reset time (never looked / before the crossing / at or after it) — all that CheckResetTime's comparisons see.
func (w *World) resetKey() string {
	if !w.Cfg.ResetSeqTime {
		return ""
	}
	lc := w.VS.Snapshot().ResetChecked
	switch {
	case lc.IsZero():
		return "|rcz"
	case w.ResetDay > 0 && lc.Before(time.Date(2030, 1, w.ResetDay, 12, 0, 0, 0, time.UTC)):
		return "|rcbehind"
	}
	return "|rccur"
}

func (w *World) timeKey() string {
	if !w.Cfg.Timed {
		if w.VS.Snapshot().HBDue {
			return "|hbdue" + w.resetKey()
		}
		return w.resetKey()
	}
	u := w.TickUnit()
	rel := func(armed bool, d time.Duration) int {
		if !armed {
			return -99
		}
		return int((d - w.VNow) / u)
	}
	return fmt.Sprintf("|dl%d,%d,%v", rel(w.ArmS, w.DeadS), rel(w.ArmP, w.DeadP), w.VS.Snapshot().HBDue)
}

// Stored returns what the store holds under seq (below the recorder).
func (w *World) Stored(seq int) ([][]byte, error) { return w.store.MessageStore.GetMessages(seq, seq) }

// Log returns the full ordered observation log.
func (w *World) Log() []Obs { return w.log }

// ExtAdvance: another process (the active node of a hot-standby pair) uses the same persistent store while this engine
// is not connected: it sends one message and receives one. Returns the number it used and the bytes it stored there.
func (w *World) ExtAdvance() (int, []byte, error) {
	st, err := w.sf.Create(w.ID)
	if err != nil {
		return 0, nil, err
	}
	defer st.Close()
	n := st.NextSenderMsgSeqNum()
	b := fixscan.Build([]fixscan.Field{{8, w.Cfg.BeginString}, {35, "0"}, {34, strconv.Itoa(n)}, {49, OurComp}, {52, fixscan.Stamp(time.Now().Add(-time.Minute))}, {56, PeerComp}, {112, "FROM-THE-OTHER-NODE"}})
	if err := st.SaveMessageAndIncrNextSenderMsgSeqNum(n, b); err != nil {
		return 0, nil, err
	}
	if err := st.IncrNextTargetMsgSeqNum(); err != nil {
		return 0, nil, err
	}
	return n, b, nil
}

// Persisted reads the persistent store through a fresh instance: both counters and what is stored under number n.
func (w *World) Persisted(n int) (s, t int, msgs [][]byte, err error) {
	st, err := w.sf.Create(w.ID)
	if err != nil {
		return 0, 0, nil, err
	}
	defer st.Close()
	msgs, err = st.GetMessages(n, n)
	return st.NextSenderMsgSeqNum(), st.NextTargetMsgSeqNum(), msgs, err
}
