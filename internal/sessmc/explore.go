package sessmc

import (
	"fmt"
	"hash/fnv"
	"runtime"
	"strings"
	"sync"
	"sync/atomic"
)

// Monitor is a per-path property automaton. A fresh one is created for every replay.
type Monitor interface {
	// Step consumes the observations of one transition; returns a violation (rule id + text) or "".
	Step(w *World, e *Event, obs []Obs) (rule, what string)
	// Key is the monitor's own state (part of the product state key).
	Key() string
}

// Violation found by the explorer.
type Violation struct {
	Cfg   Config
	Path  []string // event names
	Idx   []int
	Rule  string
	What  string
	Trace []string
	Probe bool // found by the per-state probe (StateCheck) rather than by a transition monitor
}

// Explorer is a breadth-first explicit-state search; a state is the event path reaching it and a
// successor is computed by replaying the path on a fresh real session plus one event.
type Explorer struct {
	Cfg       Config
	Prefix    []*Event // applied (unmonitored-for-dedup but monitored for violations) before exploration
	Alphabet  []*Event
	Monitors  func() []Monitor
	MaxDepth  int
	Relative  bool
	MaxStates int
	Workers   int
	Stop      func() bool // soft deadline
	// StateCheck, if set, is run once on every newly discovered state (it may destroy the world);
	// it receives the monitors in their state at that point.
	StateCheck func(w *World, mons []Monitor) (rule, what string)
	// ExtraEnabled further restricts the alphabet in a state (nil => none).
	ExtraEnabled func(w *World, e *Event) bool

	// results
	States, Transitions int64
	DepthDone           int
	Capped              bool
	Violations          []Violation
	ObsLogs             int64 // distinct observation-log hashes seen (non-vacuity)
	SamplePaths         [][]string
	Frontier            [][]uint16 // last completed frontier (for conformance sampling)
}

type node struct{ path []uint16 }

func (x *Explorer) build(path []uint16) (*World, []Monitor, *Violation, error) {
	w, err := NewWorld(x.Cfg)
	if err != nil {
		return nil, nil, nil, err
	}
	mons := x.Monitors()
	var viol *Violation
	step := func(e *Event) {
		obs := w.Apply(e)
		for _, m := range mons {
			if r, what := m.Step(w, e, obs); r != "" && viol == nil {
				viol = &Violation{Cfg: x.Cfg, Rule: r, What: what}
			}
		}
	}
	for _, e := range x.Prefix {
		step(e)
	}
	for _, i := range path {
		step(x.Alphabet[i])
	}
	return w, mons, viol, nil
}

func (x *Explorer) key(w *World, mons []Monitor) string {
	var sb strings.Builder
	if x.Relative {
		sb.WriteString(w.RelKey())
	} else {
		sb.WriteString(w.Key())
	}
	for _, m := range mons {
		sb.WriteString("#")
		sb.WriteString(m.Key())
	}
	return sb.String()
}

func (x *Explorer) names(path []uint16) []string {
	out := []string{}
	for _, e := range x.Prefix {
		out = append(out, "prefix:"+e.Name)
	}
	for _, i := range path {
		out = append(out, x.Alphabet[i].Name)
	}
	return out
}

// Run explores to MaxDepth.
func (x *Explorer) Run() error {
	if x.Workers == 0 {
		x.Workers = runtime.NumCPU()
	}
	const shards = 256
	var seen [shards]map[uint64]struct{}
	var seenMu [shards]sync.Mutex
	for i := range seen {
		seen[i] = map[uint64]struct{}{}
	}
	var obsSeen sync.Map
	add := func(k string) bool {
		h := fnv.New64a()
		h.Write([]byte(k))
		v := h.Sum64()
		s := v % shards
		seenMu[s].Lock()
		defer seenMu[s].Unlock()
		if _, ok := seen[s][v]; ok {
			return false
		}
		seen[s][v] = struct{}{}
		return true
	}
	// initial state
	w0, m0, v0, err := x.build(nil)
	if err != nil {
		return err
	}
	if v0 != nil {
		v0.Path = x.names(nil)
		x.Violations = append(x.Violations, *v0)
	}
	add(x.key(w0, m0))
	w0.Close()
	x.States = 1
	frontier := []node{{}}
	var violMu sync.Mutex
	violSeen := map[string]bool{}
	for depth := 1; depth <= x.MaxDepth && len(frontier) > 0; depth++ {
		var next []node
		var nextMu sync.Mutex
		var idx int64 = -1
		var wg sync.WaitGroup
		var capped int32
		for wk := 0; wk < x.Workers; wk++ {
			wg.Add(1)
			go func() {
				defer wg.Done()
				var local []node
				var ltrans, lstates int64
				for {
					i := atomic.AddInt64(&idx, 1)
					if int(i) >= len(frontier) {
						break
					}
					if atomic.LoadInt32(&capped) != 0 {
						break
					}
					if (x.Stop != nil && i%64 == 0 && x.Stop()) || (x.MaxStates > 0 && atomic.LoadInt64(&x.States)+lstates > int64(x.MaxStates)) {
						atomic.StoreInt32(&capped, 1)
						break
					}
					n := frontier[i]
					w, _, _, err := x.build(n.path)
					if err != nil {
						continue
					}
					var en []uint16
					for ai, e := range x.Alphabet {
						if w.Enabled(e) && (x.ExtraEnabled == nil || x.ExtraEnabled(w, e)) {
							en = append(en, uint16(ai))
						}
					}
					w.Close()
					for _, ai := range en {
						p := make([]uint16, len(n.path)+1)
						copy(p, n.path)
						p[len(n.path)] = ai
						// replay prefix+path, monitoring only matters for the last step's verdict,
						// but monitors need their history, so run them all along.
						w2, err := NewWorld(x.Cfg)
						if err != nil {
							continue
						}
						mons := x.Monitors()
						var rule, what string
						var lastObs []Obs
						apply := func(e *Event, last bool) {
							obs := w2.Apply(e)
							for _, m := range mons {
								r, wh := m.Step(w2, e, obs)
								if last && r != "" && rule == "" {
									rule, what = r, wh
								}
							}
							if last {
								lastObs = obs
							}
						}
						for _, e := range x.Prefix {
							apply(e, false)
						}
						for j, pi := range p {
							apply(x.Alphabet[pi], j == len(p)-1)
						}
						ltrans++
						// non-vacuity: hash of the transition's observation log
						oh := fnv.New64a()
						for _, o := range lastObs {
							oh.Write([]byte(o.K + o.Type + o.Op))
						}
						if _, loaded := obsSeen.LoadOrStore(oh.Sum64(), true); !loaded {
							atomic.AddInt64(&x.ObsLogs, 1)
						}
						if rule != "" {
							if strings.HasPrefix(what, "hang:") {
								// a stuck handler keeps spinning in its goroutine: stop exploring instead of piling them up
								atomic.StoreInt32(&capped, 1)
							}
							sig := rule
							violMu.Lock()
							if !violSeen[sig] {
								violSeen[sig] = true
								tr := []string{}
								for _, o := range w2.Log() {
									tr = append(tr, o.String())
								}
								idxs := make([]int, len(p))
								for j, q := range p {
									idxs[j] = int(q)
								}
								x.Violations = append(x.Violations, Violation{Cfg: x.Cfg, Path: x.names(p), Idx: idxs, Rule: rule, What: what, Trace: tr})
							}
							violMu.Unlock()
							w2.Close()
							continue // do not expand beyond a violating transition
						}
						k := x.key(w2, mons)
						isNew := add(k)
						if isNew && x.StateCheck != nil {
							if r, wh := x.StateCheck(w2, mons); r != "" {
								violMu.Lock()
								if !violSeen[r] {
									violSeen[r] = true
									tr := []string{}
									for _, o := range w2.Log() {
										tr = append(tr, o.String())
									}
									x.Violations = append(x.Violations, Violation{Cfg: x.Cfg, Path: x.names(p), Rule: r, What: wh, Trace: tr, Probe: true})
								}
								violMu.Unlock()
							}
						}
						w2.Close()
						if isNew {
							lstates++
							local = append(local, node{p})
						}
					}
				}
				atomic.AddInt64(&x.Transitions, ltrans)
				atomic.AddInt64(&x.States, lstates)
				nextMu.Lock()
				next = append(next, local...)
				nextMu.Unlock()
			}()
		}
		wg.Wait()
		if capped != 0 {
			x.Capped = true
			break
		}
		x.DepthDone = depth
		frontier = next
		x.Frontier = x.Frontier[:0]
		for _, n := range next {
			x.Frontier = append(x.Frontier, n.path)
		}
	}
	for i := 0; i < len(x.Frontier) && len(x.SamplePaths) < 3; i += len(x.Frontier)/3 + 1 {
		x.SamplePaths = append(x.SamplePaths, x.names(x.Frontier[i]))
	}
	return nil
}

// ReplayNamesWorld re-executes a path given by event names on a fresh world (explorer-free driver)
// and returns the world for further probing; the caller closes it.
func ReplayNamesWorld(cfg Config, prefix []*Event, alphabet []*Event, mons []Monitor, names []string) (rule, what string, trace []string, w *World, err error) {
	w, err = NewWorld(cfg)
	if err != nil {
		return "", "", nil, nil, err
	}
	byName := map[string]*Event{}
	for _, e := range alphabet {
		byName[e.Name] = e
	}
	for _, e := range prefix {
		byName["prefix:"+e.Name] = e
	}
	for _, n := range names {
		e := byName[n]
		if e == nil {
			w.Close()
			return "", "", nil, nil, fmt.Errorf("unknown event %q", n)
		}
		obs := w.Apply(e)
		for _, m := range mons {
			if r, wh := m.Step(w, e, obs); r != "" && rule == "" {
				rule, what = r, wh
			}
		}
	}
	for _, o := range w.Log() {
		trace = append(trace, o.String())
	}
	return
}
