package sessmc

import (
	"context"
	"database/sql"
	"database/sql/driver"
	"errors"
	"sync"

	sqlite3 "github.com/mattn/go-sqlite3"
)

// A database/sql driver around sqlite3 that can fail the k-th statement-level call (begin, exec, query, commit) made
// on one data source: worlds run in parallel, so the failure plan is looked up by data-source name.

const SQLFaultDriver = "sqlite3-verif-world"

var (
	sqlFaultOnce sync.Once
	sqlFaultMu   sync.Mutex
	sqlFaultLeft = map[string]*int{}
)

var errSQLInjected = errors.New("injected statement failure")

func registerSQLFaultDriver() {
	sqlFaultOnce.Do(func() { sql.Register(SQLFaultDriver, sqlFaultDriver{&sqlite3.SQLiteDriver{}}) })
}

func armSQLFailure(dsn string, k int) {
	sqlFaultMu.Lock()
	n := k
	sqlFaultLeft[dsn] = &n
	sqlFaultMu.Unlock()
}

func disarmSQLFailure(dsn string) {
	sqlFaultMu.Lock()
	delete(sqlFaultLeft, dsn)
	sqlFaultMu.Unlock()
}

func sqlFaultHit(dsn string) error {
	sqlFaultMu.Lock()
	defer sqlFaultMu.Unlock()
	if left, ok := sqlFaultLeft[dsn]; ok {
		*left--
		if *left == 0 {
			return errSQLInjected
		}
	}
	return nil
}

type sqlFaultDriver struct{ inner driver.Driver }

func (d sqlFaultDriver) Open(name string) (driver.Conn, error) {
	c, err := d.inner.Open(name)
	if err != nil {
		return nil, err
	}
	return &sqlFaultConn{c, name}, nil
}

type sqlFaultConn struct {
	driver.Conn
	dsn string
}

func (c *sqlFaultConn) ExecContext(ctx context.Context, q string, args []driver.NamedValue) (driver.Result, error) {
	if err := sqlFaultHit(c.dsn); err != nil {
		return nil, err
	}
	return c.Conn.(driver.ExecerContext).ExecContext(ctx, q, args)
}
func (c *sqlFaultConn) QueryContext(ctx context.Context, q string, args []driver.NamedValue) (driver.Rows, error) {
	if err := sqlFaultHit(c.dsn); err != nil {
		return nil, err
	}
	return c.Conn.(driver.QueryerContext).QueryContext(ctx, q, args)
}
func (c *sqlFaultConn) BeginTx(ctx context.Context, opts driver.TxOptions) (driver.Tx, error) {
	if err := sqlFaultHit(c.dsn); err != nil {
		return nil, err
	}
	tx, err := c.Conn.(driver.ConnBeginTx).BeginTx(ctx, opts)
	if err != nil {
		return nil, err
	}
	return &sqlFaultTx{tx, c.dsn}, nil
}
func (c *sqlFaultConn) Ping(ctx context.Context) error {
	if p, ok := c.Conn.(driver.Pinger); ok {
		return p.Ping(ctx)
	}
	return nil
}
func (c *sqlFaultConn) ResetSession(ctx context.Context) error { return nil }

type sqlFaultTx struct {
	driver.Tx
	dsn string
}

func (t *sqlFaultTx) Commit() error {
	if err := sqlFaultHit(t.dsn); err != nil {
		t.Tx.Rollback()
		return err
	}
	return t.Tx.Commit()
}
