package sessmc

import (
	"bytes"
	"fmt"
	"strings"

	"github.com/quickfixgo/quickfix"

	"verif/internal/fixscan"
)

// Pair is two real engines (initiator I, acceptor A) joined by two FIFO wires. Bytes travel through the
// real stream parser on delivery.
type Pair struct {
	I, A       *World
	IToA, AToI [][]byte
	SentI      []string // ClOrdIDs accepted for sending on I / A, in submission order
	SentA      []string
	nI, nA     int
	Trace      []string
}

func NewPair(fileDir string) (*Pair, error) { return NewPairBS(fileDir, "FIX.4.2") }

// NewPairBS: both engines speak the given BeginString.
func NewPairBS(fileDir, bs string) (*Pair, error) { return NewPairExtra(fileDir, bs, nil) }

// NewPairExtra: both engines also get the extra session settings.
func NewPairExtra(fileDir, bs string, extra map[string]string) (*Pair, error) {
	ci := Config{Initiator: true, BeginString: bs, FileDir: fileDir, Extra: extra}
	ca := Config{BeginString: bs, Flip: true, FileDir: fileDir, Extra: extra}
	i, err := NewWorld(ci)
	if err != nil {
		return nil, err
	}
	a, err := NewWorld(ca)
	if err != nil {
		i.Close()
		return nil, err
	}
	return &Pair{I: i, A: a}, nil
}

func (p *Pair) Close() { p.I.Close(); p.A.Close() }

func (p *Pair) collect(w *World, obs []Obs) {
	for _, o := range obs {
		if o.K == "out" {
			if w == p.I {
				p.IToA = append(p.IToA, o.Raw)
			} else {
				p.AToI = append(p.AToI, o.Raw)
			}
		}
		if o.K == "panic" {
			p.Trace = append(p.Trace, "PANIC "+o.Txt)
		}
	}
}

func (p *Pair) apply(w *World, e *Event) {
	p.collect(w, w.Apply(e))
}

func (p *Pair) connected() bool {
	return p.I.VS.Snapshot().Connected && p.A.VS.Snapshot().Connected
}

// frame passes bytes through the real stream parser (one frame expected).
func frame(b []byte) []byte {
	pr := quickfix.VerifNewParser(bytes.NewReader(b))
	f, err := pr.ReadMessage()
	if err != nil {
		return nil
	}
	return f.Bytes()
}

func (p *Pair) deliver(toA bool) {
	var b []byte
	var w *World
	if toA {
		b, p.IToA, w = p.IToA[0], p.IToA[1:], p.A
	} else {
		b, p.AToI, w = p.AToI[0], p.AToI[1:], p.I
	}
	f := frame(b)
	if f == nil {
		p.Trace = append(p.Trace, "unframeable bytes on the wire")
		return
	}
	if m, err := fixscan.Scan(f); err == nil {
		p.Trace = append(p.Trace, fmt.Sprintf("deliver %s#%d %v toA=%v", m.Type(), m.Seq(), m.PossDup(), toA))
	}
	ev := &Event{K: "in", Name: "wire", In: &In{Garbage: string(f)}}
	if w.Enabled(ev) {
		p.apply(w, ev)
	}
}

// Step performs one atomic action of the default schedule; swap delivers from the other wire first.
// Returns false when nothing is left to do (quiescent).
func (p *Pair) Step(swap bool) bool {
	ic, ac := p.I.VS.Snapshot().Connected, p.A.VS.Snapshot().Connected
	if ic != ac {
		// one side ended the connection. What it had written before closing still reaches the other side, which
		// then sees the close; what was on its way to the side that closed is lost.
		if !ic {
			p.AToI = nil
			if len(p.IToA) > 0 {
				p.deliver(true)
				return true
			}
		} else {
			p.IToA = nil
			if len(p.AToI) > 0 {
				p.deliver(false)
				return true
			}
		}
		p.Cut()
		return true
	}
	if !ic {
		if p.I.VS.Snapshot().Stopped || p.A.VS.Snapshot().Stopped {
			return false
		}
		p.Trace = append(p.Trace, "connect")
		p.apply(p.A, EvConnect())
		p.apply(p.I, EvConnect())
		return true
	}
	// the run loop serves its send queue at once (the flush token is consumed before anything else arrives from the
	// slower network); then frames cross, initiator→acceptor first. swap takes the second available action instead
	// of the first: the other flush, a frame before a pending flush (the loop found the frame first), or the other wire.
	acts := p.actions()
	if len(acts) == 0 {
		return false
	}
	k := 0
	if swap && len(acts) > 1 {
		k = 1
		if acts[0] <= 1 && acts[1] >= 2 {
			p.Trace = append(p.Trace, "late-flush")
		}
	}
	switch acts[k] {
	case 0:
		p.apply(p.I, EvFlush())
	case 1:
		p.apply(p.A, EvFlush())
	case 2:
		p.deliver(true)
	case 3:
		p.deliver(false)
	}
	return true
}

// actions lists what the default schedule can do now, in priority order: 0 flush I, 1 flush A, 2 frame to A, 3 frame to I.
func (p *Pair) actions() (acts []int) {
	if p.I.VS.Snapshot().MsgEvent > 0 {
		acts = append(acts, 0)
	}
	if p.A.VS.Snapshot().MsgEvent > 0 {
		acts = append(acts, 1)
	}
	if len(p.IToA) > 0 {
		acts = append(acts, 2)
	}
	if len(p.AToI) > 0 {
		acts = append(acts, 3)
	}
	return
}

// CanSwap tells whether the ordering deviation is available now.
func (p *Pair) CanSwap() bool { return p.connected() && len(p.actions()) > 1 }

// Send submits an application message on one side (also while disconnected).
func (p *Pair) Send(onI bool) {
	w, id := p.A, ""
	if onI {
		w = p.I
		p.nI++
		id = fmt.Sprintf("I-%d", p.nI)
	} else {
		p.nA++
		id = fmt.Sprintf("A-%d", p.nA)
	}
	ev := &Event{K: "send", Name: "send " + id, Send: []fixscan.Field{{11, id}, {55, "X"}}}
	obs := w.Apply(ev)
	ok := true
	for _, o := range obs {
		if o.K == "senderr" {
			ok = false
		}
	}
	p.collect(w, obs)
	p.Trace = append(p.Trace, "send "+id)
	if ok {
		if onI {
			p.SentI = append(p.SentI, id)
		} else {
			p.SentA = append(p.SentA, id)
		}
	}
}

// Cut drops the connection: in-flight bytes in both directions are lost, both sides see the close.
func (p *Pair) Cut() {
	p.Trace = append(p.Trace, "cut")
	p.IToA, p.AToI = nil, nil
	for _, w := range []*World{p.I, p.A} {
		if w.VS.Snapshot().Connected {
			p.collect(w, w.Apply(EvDisconnect()))
		}
	}
	p.IToA, p.AToI = nil, nil
}

// Restart discards one engine and recreates it on its persistent store (file store only).
func (p *Pair) Restart(onI bool) {
	if p.connected() || p.I.VS.Snapshot().Connected || p.A.VS.Snapshot().Connected {
		p.Cut()
	}
	w := p.A
	if onI {
		w = p.I
	}
	p.Trace = append(p.Trace, fmt.Sprintf("restart I=%v", onI))
	w.Apply(EvRestart())
}

// StopRestart: one engine is asked to stop while connected (it logs out first), the default schedule runs until it
// has stopped (its LogoutTimeout fires if the peer never answers), then it is recreated on its persistent store.
func (p *Pair) StopRestart(onI bool) {
	w := p.A
	if onI {
		w = p.I
	}
	p.Trace = append(p.Trace, fmt.Sprintf("stop I=%v", onI))
	p.apply(w, EvStop())
	for i := 0; i < 60 && !w.VS.Snapshot().Stopped; i++ {
		if !p.Step(false) {
			break
		}
	}
	if !w.VS.Snapshot().Stopped {
		if e := EvTimeout(quickfix.VerifLogoutTimeout); w.Enabled(e) {
			p.apply(w, e)
		}
	}
	p.Restart(onI)
}

// Timers fires the heartbeat timer on both sides (one heartbeat interval of silence).
func (p *Pair) Timers() {
	for _, w := range []*World{p.I, p.A} {
		if w.VS.Snapshot().LoggedOn {
			p.apply(w, EvTimeout(quickfix.VerifNeedHeartbeat))
		}
	}
}

// PeerTimer fires the silent-peer timer of one side, if it is armed there (TestRequest, or disconnect when one
// is already pending). Returns false when the event is not enabled.
func (p *Pair) PeerTimer(onI bool) bool {
	w := p.A
	if onI {
		w = p.I
	}
	e := EvTimeout(quickfix.VerifPeerTimeout)
	if !w.VS.Snapshot().LoggedOn || !w.Enabled(e) {
		return false
	}
	p.apply(w, e)
	return true
}

// Quiesce runs the default schedule until nothing is left to do (bounded).
func (p *Pair) Quiesce(maxSteps int) bool {
	for i := 0; i < maxSteps; i++ {
		if !p.Step(false) {
			return true
		}
	}
	return false
}

// Key is the canonical state of the pair.
func (p *Pair) Key() string {
	wire := func(ms [][]byte) string {
		var sb strings.Builder
		for _, b := range ms {
			if m, err := fixscan.Scan(b); err == nil {
				id, _ := m.Get(11)
				fmt.Fprintf(&sb, "%s%d%v%s,", m.Type(), m.Seq(), m.PossDup(), id)
			}
		}
		return sb.String()
	}
	return p.I.Key() + "||" + p.A.Key() + "||" + wire(p.IToA) + "||" + wire(p.AToI) + "||" + strings.Join(p.I.Delivered, ",") + "||" + strings.Join(p.A.Delivered, ",")
}

// Subsequence tells whether got is a duplicate-free, order-preserving subsequence of sent.
func Subsequence(got, sent []string) bool {
	j := 0
	for _, g := range got {
		for j < len(sent) && sent[j] != g {
			j++
		}
		if j == len(sent) {
			return false
		}
		j++
	}
	return true
}
