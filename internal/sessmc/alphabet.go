package sessmc

import (
	"fmt"

	"github.com/quickfixgo/quickfix"

	"verif/internal/fixscan"
)

// Standard events used by several checks.

func EvConnect() *Event    { return &Event{K: "connect", Name: "connect"} }
func EvDisconnect() *Event { return &Event{K: "disconnect", Name: "disconnect"} }
func EvStop() *Event       { return &Event{K: "stop", Name: "stop"} }
func EvFlush() *Event      { return &Event{K: "flush", Name: "flush"} }
func EvSend() *Event {
	return &Event{K: "send", Name: "send(D)", Send: []fixscan.Field{{11, "OID"}, {55, "X"}}}
}
func EvTimeout(which int) *Event {
	n := map[int]string{quickfix.VerifPeerTimeout: "PeerTimeout", quickfix.VerifNeedHeartbeat: "NeedHeartbeat",
		quickfix.VerifLogonTimeout: "LogonTimeout", quickfix.VerifLogoutTimeout: "LogoutTimeout"}[which]
	return &Event{K: "to", To: which, Name: "timeout(" + n + ")"}
}

func relName(r int) string {
	switch {
	case r == 0:
		return "T"
	case r > 0:
		return fmt.Sprintf("T+%d", r)
	}
	return fmt.Sprintf("T%d", r)
}

// EvIn makes an inbound-message event for type t at T+rel.
func EvIn(t string, rel int, possDup bool, body ...fixscan.Field) *Event {
	n := fmt.Sprintf("in(%s@%s", t, relName(rel))
	if possDup {
		n += ",PossDup"
	}
	for _, b := range body {
		n += fmt.Sprintf(",%d=%s", b.Tag, b.Value)
	}
	n += ")"
	return &Event{K: "in", Name: n, In: &In{Type: t, Rel: rel, PossDup: possDup, Body: body}}
}

// EvInAbs: inbound message with an absolute sequence number.
func EvInAbs(t string, abs int, body ...fixscan.Field) *Event {
	n := fmt.Sprintf("in(%s@#%d", t, abs)
	for _, b := range body {
		n += fmt.Sprintf(",%d=%s", b.Tag, b.Value)
	}
	n += ")"
	return &Event{K: "in", Name: n, In: &In{Type: t, Abs: abs, Body: body}}
}

// EvSeqReset: SequenceReset at T+rel with NewSeqNo = own number + newRel; gapFill "Y","N" or "".
func EvSeqReset(rel, newRel int, gapFill string, possDup bool) *Event {
	body := []fixscan.Field{}
	if gapFill != "" {
		body = append(body, fixscan.Field{123, gapFill})
	}
	n := fmt.Sprintf("in(4@%s,123=%s,36=seq%+d", relName(rel), gapFill, newRel)
	if possDup {
		n += ",PossDup"
	}
	n += ")"
	return &Event{K: "in", Name: n, In: &In{Type: "4", Rel: rel, PossDup: possDup, Body: body, NewRel: IP(newRel)}}
}

// EvSeqResetT: SequenceReset at T+rel with NewSeqNo = T + newRelT.
func EvSeqResetT(rel, newRelT int, gapFill string, possDup bool) *Event {
	body := []fixscan.Field{}
	if gapFill != "" {
		body = append(body, fixscan.Field{123, gapFill})
	}
	n := fmt.Sprintf("in(4@%s,123=%s,36=T%+d", relName(rel), gapFill, newRelT)
	if possDup {
		n += ",PossDup"
	}
	n += ")"
	return &Event{K: "in", Name: n, In: &In{Type: "4", Rel: rel, PossDup: possDup, Body: body, NewRelT: IP(newRelT)}}
}

func EvGarbage() *Event {
	return &Event{K: "in", Name: "in(garbage)", In: &In{Garbage: "8=FIX.4.2\x019=5\x0135=D\x01garbage\x0110=000\x01"}}
}

// Logon builds a Logon event at T+rel (or absolute 1 when abs1) with optional 141.
func EvLogon(rel int, abs int, reset string) *Event {
	body := []fixscan.Field{}
	if reset != "" {
		body = append(body, fixscan.Field{141, reset})
	}
	e := &Event{K: "in", In: &In{Type: "A", Rel: rel, Abs: abs, Body: body}}
	if abs > 0 {
		e.Name = fmt.Sprintf("in(A@#%d,141=%s)", abs, reset)
	} else {
		e.Name = fmt.Sprintf("in(A@%s,141=%s)", relName(rel), reset)
	}
	return e
}

// EvLogon789: a Logon at T+rel announcing NextExpectedMsgSeqNum = our next outbound number + d.
func EvLogon789(rel, d int) *Event {
	return &Event{K: "in", Name: fmt.Sprintf("in(A@%s,789=S%+d)", relName(rel), d), In: &In{Type: "A", Rel: rel, NextExpS: IP(d)}}
}

// EvPipelined: first arrives with second already buffered behind it (second numbered relative to T at arrival).
func EvPipelined(first, second *Event) *Event {
	return &Event{K: "in", Name: first.Name + "+pipelined:" + second.Name, In: first.In, Behind: second.In}
}

// EvInOrigSame: a PossDup message whose OrigSendingTime equals its SendingTime.
func EvInOrigSame(typ string, rel int, body ...fixscan.Field) *Event {
	return &Event{K: "in", Name: fmt.Sprintf("in(%s@%s,PossDup,122=52)", typ, relName(rel)), In: &In{Type: typ, Rel: rel, OrigSame: true, Body: body}}
}

// EvSendFailingWrite: an application send during which the k-th write of the file store fails.
func EvSendFailingWrite(k int) *Event {
	return &Event{K: "send", Name: fmt.Sprintf("send(D, store write or statement %d fails)", k), Send: []fixscan.Field{{11, "ID"}, {55, "X"}}, FailWrite: k}
}

// EvSendSame: the application reuses the Message object of its previous send.
func EvSendSame() *Event {
	return &Event{K: "send", Name: "send(D, same Message object again)", Send: []fixscan.Field{{11, "OID"}, {55, "X"}}, SendSame: true}
}

func EvRestart() *Event { return &Event{K: "restart", Name: "restart"} }

func EvTick() *Event { return &Event{K: "tick", Name: "tick"} }

func EvWindowCloses() *Event { return &Event{K: "window-closes", Name: "session-window-closes"} }

// EvResetTime: the clock crosses the configured ResetSeqTime between two ticks of the run loop.
func EvResetTime() *Event { return &Event{K: "reset-time", Name: "reset-time-passes"} }

// EvClockTick: a tick of the run loop's one-second ticker that crosses no configured time.
func EvClockTick() *Event { return &Event{K: "clock-tick", Name: "clock-tick"} }

func EvSecondConnect() *Event { return &Event{K: "connect2", Name: "second-connect"} }
