package main

import (
	"fmt"
	"os"
	"runtime/debug"
	"runtime/pprof"
	"sort"

	"verif/checks"
	"verif/internal/core"
)

func usage() {
	ids := []string{}
	for id := range checks.All {
		ids = append(ids, id)
	}
	sort.Strings(ids)
	fmt.Fprintf(os.Stderr, "usage: vcheck <id> [--tier quick|thorough] | vcheck replay <path>\nchecks: %v\n", ids)
	os.Exit(2)
}

func main() {
	if len(os.Args) < 2 {
		usage()
	}
	if os.Args[1] == "replay" {
		if len(os.Args) < 3 {
			usage()
		}
		os.Exit(core.RunReplayFile(os.Args[2]))
	}
	if os.Args[1] == "worker" {
		os.Exit(checks.RunWorker(os.Args[2:]))
	}
	if os.Getenv("GOGC") == "" {
		debug.SetGCPercent(1000) // allocation-heavy replays; memory is plentiful
	}
	if os.Getenv("GOMEMLIMIT") == "" {
		// ... but not unlimited: above a third of the machine's memory the collector works as hard as it has to
		// (a lazy collector let a thorough run grow to 37 GB and be killed)
		limit := int64(16 << 30)
		if b, err := os.ReadFile("/proc/meminfo"); err == nil {
			var kb int64
			if _, err := fmt.Sscanf(string(b), "MemTotal: %d kB", &kb); err == nil && kb > 0 {
				limit = kb * 1024 / 3
			}
		}
		debug.SetMemoryLimit(limit)
	}
	id := os.Args[1]
	if pf := os.Getenv("VERIF_PPROF"); pf != "" {
		f, _ := os.Create(pf)
		pprof.StartCPUProfile(f)
		defer pprof.StopCPUProfile()
	}
	tier := os.Getenv("VERIF_TIER")
	if tier == "" {
		tier = "quick"
	}
	for i := 2; i < len(os.Args); i++ {
		if os.Args[i] == "--tier" && i+1 < len(os.Args) {
			tier = os.Args[i+1]
			i++
		}
	}
	ck := checks.All[id]
	if ck == nil {
		usage()
	}
	c := core.NewCtx(id, tier, ck.Level)
	func() {
		defer func() {
			if r := recover(); r != nil {
				c.EngineError(fmt.Sprintf("check panicked: %v", r))
			}
		}()
		ck.Run(c)
	}()
	rc := c.Finish()
	pprof.StopCPUProfile()
	os.Exit(rc)
}
